// Package mqttwire is an independent MQTT 3.1 / 3.1.1 / 5.0 codec and a
// minimal scripted client, written from the OASIS specifications. It is used
// by the verification harness as the "other side" of the broker under test and
// as the reference decoder for the broker's encoder output, therefore it must
// never import the broker's own packet codec. Standard library only.
package mqttwire

import (
	"bytes"
	"errors"
	"fmt"
	"io"
	"strings"
	"unicode/utf8"
)

// Control packet types.
const (
	CONNECT     = 1
	CONNACK     = 2
	PUBLISH     = 3
	PUBACK      = 4
	PUBREC      = 5
	PUBREL      = 6
	PUBCOMP     = 7
	SUBSCRIBE   = 8
	SUBACK      = 9
	UNSUBSCRIBE = 10
	UNSUBACK    = 11
	PINGREQ     = 12
	PINGRESP    = 13
	DISCONNECT  = 14
	AUTH        = 15
)

// Protocol versions (the protocol level byte of CONNECT).
const (
	V31  = 3
	V311 = 4
	V5   = 5
)

const maxVarint = 268435455 // largest variable byte integer

var typeNames = [16]string{"RESERVED0", "CONNECT", "CONNACK", "PUBLISH", "PUBACK", "PUBREC", "PUBREL", "PUBCOMP",
	"SUBSCRIBE", "SUBACK", "UNSUBSCRIBE", "UNSUBACK", "PINGREQ", "PINGRESP", "DISCONNECT", "AUTH"}

// TypeName returns the name of a control packet type.
func TypeName(t byte) string {
	if int(t) < len(typeNames) {
		return typeNames[t]
	}
	return fmt.Sprintf("TYPE%d", t)
}

// SubTopic is one entry of a SUBSCRIBE payload.
type SubTopic struct {
	Filter  string
	QoS     byte
	NoLocal bool // v5
	RAP     bool // v5 retain as published
	RH      byte // v5 retain handling 0..2
}

// Packet is the union of all MQTT control packets.
type Packet struct {
	Type    byte
	Version byte // protocol version used to encode/decode (V31/V311/V5)

	// fixed header flags for PUBLISH
	Dup    bool
	QoS    byte
	Retain bool

	PacketID uint16

	// CONNECT
	ProtoName   string
	ProtoLevel  byte
	CleanStart  bool
	KeepAlive   uint16
	ClientID    string
	WillFlag    bool
	WillQoS     byte
	WillRetain  bool
	WillTopic   string
	WillPayload []byte
	WillProps   *Props
	HasUsername bool
	HasPassword bool
	Username    string
	Password    []byte

	// CONNACK
	SessionPresent bool

	// reason code of CONNACK / PUBACK / PUBREC / PUBREL / PUBCOMP / DISCONNECT / AUTH (0 when absent)
	Code byte

	// PUBLISH
	Topic   string
	Payload []byte

	// SUBSCRIBE / UNSUBSCRIBE
	Subs   []SubTopic
	Unsubs []string

	// SUBACK / UNSUBACK
	Codes []byte

	Props *Props // v5 properties (nil = none; encoder writes property length 0)

	Raw []byte // decoder: the exact bytes of the packet as read (fixed header included)

	// ---- encoder-only knobs for building odd packets (never set by Decode) ----

	// FixedFlags, when non-nil, replaces the computed low nibble of the first byte.
	FixedFlags *byte
	// ConnectReserved sets the reserved bit 0 of the CONNECT flags.
	ConnectReserved bool
	// ForceCode makes the encoder write the reason code byte of a v5
	// PUBACK/PUBREC/PUBREL/PUBCOMP/DISCONNECT/AUTH even if it is 0 and there
	// are no properties (by default the shortest form is used: Code==0 and
	// Props==nil omit both; Props==nil omits the property length; a non-nil
	// but empty Props writes property length 0).
	ForceCode bool
}

// DecodeError is returned by Decode for input that was read completely (or
// whose fixed header is already invalid) but is not a well-formed packet.
type DecodeError struct {
	Reason string
	Raw    []byte // the bytes read so far (whole packet when the body was available)
}

func (e *DecodeError) Error() string { return "mqttwire: malformed packet: " + e.Reason }

// IsMalformed reports whether err is (or wraps) a *DecodeError.
func IsMalformed(err error) bool {
	var de *DecodeError
	return errors.As(err, &de)
}

// ======================================================================
// Encoder
// ======================================================================

type wr struct {
	b   []byte
	err error
}

func (w *wr) fail(err error) {
	if w.err == nil {
		w.err = err
	}
}
func (w *wr) u8(v byte)    { w.b = append(w.b, v) }
func (w *wr) u16(v uint16) { w.b = append(w.b, byte(v>>8), byte(v)) }
func (w *wr) u32(v uint32) { w.b = append(w.b, byte(v>>24), byte(v>>16), byte(v>>8), byte(v)) }
func (w *wr) varint(v uint32) {
	if v > maxVarint {
		w.fail(fmt.Errorf("mqttwire: value %d does not fit a variable byte integer", v))
		return
	}
	w.b = appendVarint(w.b, v)
}
func (w *wr) bin(v []byte) {
	if len(v) > 0xFFFF {
		w.fail(fmt.Errorf("mqttwire: binary data too long (%d)", len(v)))
		return
	}
	w.u16(uint16(len(v)))
	w.b = append(w.b, v...)
}
func (w *wr) str(v string) {
	if len(v) > 0xFFFF {
		w.fail(fmt.Errorf("mqttwire: string too long (%d)", len(v)))
		return
	}
	w.u16(uint16(len(v)))
	w.b = append(w.b, v...)
}

func appendVarint(b []byte, v uint32) []byte {
	for {
		d := byte(v % 128)
		v /= 128
		if v > 0 {
			d |= 0x80
		}
		b = append(b, d)
		if v == 0 {
			return b
		}
	}
}

func b2i(b bool, v byte) byte {
	if b {
		return v
	}
	return 0
}

// Encode serialises p using p.Version. Every field is honoured literally so
// that odd packets can be built; the only errors are things that cannot be
// encoded at all (unknown type/version, over-long strings, over-long packet).
//
// CONNECT: if ProtoName=="" and ProtoLevel==0 they are derived from Version
// ("MQIsdp"/3, "MQTT"/4, "MQTT"/5); otherwise both are written as given.
func Encode(p *Packet) ([]byte, error) {
	if p == nil {
		return nil, errors.New("mqttwire: nil packet")
	}
	v := p.Version
	if v != V31 && v != V311 && v != V5 {
		return nil, fmt.Errorf("mqttwire: cannot encode with version %d", v)
	}
	v5 := v == V5
	w := &wr{}
	var flags byte
	switch p.Type {
	case CONNECT:
		name, level := p.ProtoName, p.ProtoLevel
		if name == "" && level == 0 {
			level = v
			name = "MQTT"
			if v == V31 {
				name = "MQIsdp"
			}
		}
		w.str(name)
		w.u8(level)
		cf := b2i(p.ConnectReserved, 0x01) | b2i(p.CleanStart, 0x02) | b2i(p.WillFlag, 0x04) | (p.WillQoS&3)<<3 |
			b2i(p.WillRetain, 0x20) | b2i(p.HasPassword, 0x40) | b2i(p.HasUsername, 0x80)
		w.u8(cf)
		w.u16(p.KeepAlive)
		if v5 {
			w.props(p.Props)
		}
		w.str(p.ClientID)
		if p.WillFlag {
			if v5 {
				w.props(p.WillProps)
			}
			w.str(p.WillTopic)
			w.bin(p.WillPayload)
		}
		if p.HasUsername {
			w.str(p.Username)
		}
		if p.HasPassword {
			w.bin(p.Password)
		}
	case CONNACK:
		w.u8(b2i(p.SessionPresent, 1))
		w.u8(p.Code)
		if v5 {
			w.props(p.Props)
		}
	case PUBLISH:
		flags = b2i(p.Dup, 0x08) | (p.QoS&3)<<1 | b2i(p.Retain, 0x01)
		w.str(p.Topic)
		if p.QoS&3 != 0 {
			w.u16(p.PacketID)
		}
		if v5 {
			w.props(p.Props)
		}
		if len(w.b)+len(p.Payload) > maxVarint {
			return nil, fmt.Errorf("mqttwire: packet too long (%d)", len(w.b)+len(p.Payload))
		}
		w.b = append(w.b, p.Payload...)
	case PUBACK, PUBREC, PUBREL, PUBCOMP:
		if p.Type == PUBREL {
			flags = 0x02
		}
		w.u16(p.PacketID)
		if v5 {
			w.codeAndProps(p)
		}
	case SUBSCRIBE:
		flags = 0x02
		w.u16(p.PacketID)
		if v5 {
			w.props(p.Props)
		}
		for _, s := range p.Subs {
			w.str(s.Filter)
			if v5 {
				w.u8(s.QoS&3 | b2i(s.NoLocal, 0x04) | b2i(s.RAP, 0x08) | (s.RH&3)<<4)
			} else {
				w.u8(s.QoS)
			}
		}
	case SUBACK:
		w.u16(p.PacketID)
		if v5 {
			w.props(p.Props)
		}
		w.b = append(w.b, p.Codes...)
	case UNSUBSCRIBE:
		flags = 0x02
		w.u16(p.PacketID)
		if v5 {
			w.props(p.Props)
		}
		for _, f := range p.Unsubs {
			w.str(f)
		}
	case UNSUBACK:
		w.u16(p.PacketID)
		if v5 {
			w.props(p.Props)
			w.b = append(w.b, p.Codes...)
		}
	case PINGREQ, PINGRESP:
	case DISCONNECT, AUTH:
		if v5 {
			w.codeAndProps(p)
		}
	default:
		return nil, fmt.Errorf("mqttwire: cannot encode packet type %d", p.Type)
	}
	if w.err != nil {
		return nil, w.err
	}
	if len(w.b) > maxVarint {
		return nil, fmt.Errorf("mqttwire: packet too long (%d)", len(w.b))
	}
	if p.FixedFlags != nil {
		flags = *p.FixedFlags & 0x0F
	}
	out := make([]byte, 0, len(w.b)+5)
	out = append(out, p.Type<<4|flags)
	out = appendVarint(out, uint32(len(w.b)))
	out = append(out, w.b...)
	return out, nil
}

// codeAndProps writes the optional reason code and property section of the
// v5 PUBACK family, DISCONNECT and AUTH in the shortest form unless forced.
func (w *wr) codeAndProps(p *Packet) {
	if p.Props == nil {
		if p.Code != 0 || p.ForceCode {
			w.u8(p.Code)
		}
		return
	}
	w.u8(p.Code)
	w.props(p.Props)
}

// Size returns len(Encode(p)) (0 if p cannot be encoded).
func Size(p *Packet) int {
	b, _ := Encode(p)
	return len(b)
}

// ======================================================================
// Decoder
// ======================================================================

type rd struct {
	b            []byte
	off          int
	err          error
	strictVarint bool // reject non-minimal variable byte integers (v5)
}

func (r *rd) left() int { return len(r.b) - r.off }
func (r *rd) failf(f string, a ...interface{}) {
	if r.err == nil {
		r.err = fmt.Errorf(f, a...)
	}
}
func (r *rd) need(n int, what string) bool {
	if r.err != nil {
		return false
	}
	if r.left() < n {
		r.failf("truncated %s: need %d bytes, have %d", what, n, r.left())
		return false
	}
	return true
}
func (r *rd) u8(what string) byte {
	if !r.need(1, what) {
		return 0
	}
	v := r.b[r.off]
	r.off++
	return v
}
func (r *rd) u16(what string) uint16 {
	if !r.need(2, what) {
		return 0
	}
	v := uint16(r.b[r.off])<<8 | uint16(r.b[r.off+1])
	r.off += 2
	return v
}
func (r *rd) u32(what string) uint32 {
	if !r.need(4, what) {
		return 0
	}
	v := uint32(r.b[r.off])<<24 | uint32(r.b[r.off+1])<<16 | uint32(r.b[r.off+2])<<8 | uint32(r.b[r.off+3])
	r.off += 4
	return v
}
func (r *rd) varint(what string) uint32 {
	var v uint32
	for i := 0; i < 4; i++ {
		d := r.u8(what)
		if r.err != nil {
			return 0
		}
		v |= uint32(d&0x7F) << (7 * uint(i))
		if d&0x80 == 0 {
			if r.strictVarint && i > 0 && d == 0 {
				r.failf("%s: non-minimal variable byte integer", what)
				return 0
			}
			return v
		}
	}
	r.failf("%s: variable byte integer longer than 4 bytes", what)
	return 0
}

// bin reads two-byte-length-prefixed binary data; the result is never nil.
func (r *rd) bin(what string) []byte {
	n := int(r.u16(what + " length"))
	if !r.need(n, what) {
		return nil
	}
	v := make([]byte, n)
	copy(v, r.b[r.off:r.off+n])
	r.off += n
	return v
}

// str reads a UTF-8 encoded string and checks it is well formed (MQTT 1.5.4:
// valid UTF-8, no surrogates, no U+0000).
func (r *rd) str(what string) string {
	n := int(r.u16(what + " length"))
	if !r.need(n, what) {
		return ""
	}
	s := string(r.b[r.off : r.off+n])
	r.off += n
	if !utf8.ValidString(s) {
		r.failf("%s: ill-formed UTF-8 %q", what, s)
		return ""
	}
	if strings.IndexByte(s, 0) >= 0 {
		r.failf("%s: contains U+0000", what)
		return ""
	}
	return s
}
func (r *rd) rest() []byte {
	v := make([]byte, r.left())
	copy(v, r.b[r.off:])
	r.off = len(r.b)
	return v
}

// validTopicName: at least one character, no wildcards.
func validTopicName(s string) bool {
	return len(s) > 0 && !strings.ContainsAny(s, "+#")
}

// ValidFilter checks a topic filter per MQTT 4.7.1: non-empty, '#' only as the
// last level on its own, '+' only as a whole level.
func ValidFilter(s string) bool {
	if len(s) == 0 {
		return false
	}
	levels := strings.Split(s, "/")
	for i, l := range levels {
		if strings.ContainsAny(l, "+#") && len(l) != 1 {
			return false
		}
		if l == "#" && i != len(levels)-1 {
			return false
		}
	}
	return true
}

// v5 reason codes allowed per packet type.
var reasonCodes = map[byte][]byte{
	CONNACK:  {0x00, 0x80, 0x81, 0x82, 0x83, 0x84, 0x85, 0x86, 0x87, 0x88, 0x89, 0x8A, 0x8C, 0x90, 0x95, 0x97, 0x99, 0x9A, 0x9B, 0x9C, 0x9D, 0x9F},
	PUBACK:   {0x00, 0x10, 0x80, 0x83, 0x87, 0x90, 0x91, 0x97, 0x99},
	PUBREC:   {0x00, 0x10, 0x80, 0x83, 0x87, 0x90, 0x91, 0x97, 0x99},
	PUBREL:   {0x00, 0x92},
	PUBCOMP:  {0x00, 0x92},
	SUBACK:   {0x00, 0x01, 0x02, 0x80, 0x83, 0x87, 0x8F, 0x91, 0x97, 0x9E, 0xA1, 0xA2},
	UNSUBACK: {0x00, 0x11, 0x80, 0x83, 0x87, 0x8F, 0x91},
	DISCONNECT: {0x00, 0x04, 0x80, 0x81, 0x82, 0x83, 0x87, 0x89, 0x8B, 0x8D, 0x8E, 0x8F, 0x90, 0x93, 0x94, 0x95, 0x96, 0x97,
		0x98, 0x99, 0x9A, 0x9B, 0x9C, 0x9D, 0x9E, 0xA0, 0xA1, 0xA2},
	AUTH: {0x00, 0x18, 0x19},
}

// ValidReasonCode reports whether code is defined for packet type typ in MQTT 5.
func ValidReasonCode(typ, code byte) bool {
	return bytes.IndexByte(reasonCodes[typ], code) >= 0
}

func (r *rd) reason(typ byte) byte {
	c := r.u8("reason code")
	if r.err == nil && !ValidReasonCode(typ, c) {
		r.failf("reason code 0x%02X not defined for %s", c, TypeName(typ))
	}
	return c
}

// Decode reads exactly one control packet from r and decodes it strictly.
// version selects the v3 or v5 layout (V31, V311 or V5); for CONNECT it is
// ignored and taken from the packet itself. Packets of both directions are
// accepted. Errors: io.EOF if r is at EOF before the first byte,
// io.ErrUnexpectedEOF (or the reader's error) if the stream ends inside a
// packet, *DecodeError for malformed packets.
func Decode(r io.Reader, version byte) (*Packet, error) {
	var one [1]byte
	if _, err := io.ReadFull(r, one[:]); err != nil {
		return nil, err
	}
	raw := []byte{one[0]}
	typ, flags := one[0]>>4, one[0]&0x0F
	if typ == 0 {
		return nil, &DecodeError{"reserved packet type 0", raw}
	}
	var rl uint32
	for i := 0; ; i++ {
		if i == 4 {
			return nil, &DecodeError{"remaining length longer than 4 bytes", raw}
		}
		if _, err := io.ReadFull(r, one[:]); err != nil {
			return nil, unexpected(err)
		}
		raw = append(raw, one[0])
		rl |= uint32(one[0]&0x7F) << (7 * uint(i))
		if one[0]&0x80 == 0 {
			break
		}
	}
	hdr := len(raw)
	if rl > 0 {
		var buf bytes.Buffer
		buf.Write(raw)
		if _, err := io.CopyN(&buf, r, int64(rl)); err != nil {
			return nil, unexpected(err)
		}
		raw = buf.Bytes()
	}
	p, err := decodeBody(typ, flags, raw[hdr:], version)
	if err != nil {
		return nil, &DecodeError{TypeName(typ) + ": " + err.Error(), raw}
	}
	if p.Version == V5 && hdr > 2 && raw[hdr-1] == 0 {
		return nil, &DecodeError{TypeName(typ) + ": non-minimal remaining length encoding", raw}
	}
	p.Raw = raw
	return p, nil
}

// DecodeBytes decodes exactly one packet from b and requires that b contains
// nothing else.
func DecodeBytes(b []byte, version byte) (*Packet, error) {
	r := bytes.NewReader(b)
	p, err := Decode(r, version)
	if err != nil {
		return nil, err
	}
	if r.Len() != 0 {
		return nil, &DecodeError{fmt.Sprintf("%d trailing bytes after %s", r.Len(), TypeName(p.Type)), b}
	}
	return p, nil
}

func unexpected(err error) error {
	if err == io.EOF {
		return io.ErrUnexpectedEOF
	}
	return err
}

var wantFlags = [16]byte{0, 0, 0, 0, 0, 0, 2, 0, 2, 0, 2, 0, 0, 0, 0, 0}

func decodeBody(typ, flags byte, body []byte, version byte) (*Packet, error) {
	p := &Packet{Type: typ, Version: version}
	r := &rd{b: body}
	if typ != CONNECT {
		if version != V31 && version != V311 && version != V5 {
			return nil, fmt.Errorf("unknown protocol version %d", version)
		}
		r.strictVarint = version == V5
	}
	v5 := version == V5
	if typ == PUBLISH {
		p.Dup, p.QoS, p.Retain = flags&0x08 != 0, flags>>1&3, flags&0x01 != 0
		if p.QoS == 3 {
			return nil, errors.New("QoS 3")
		}
		if p.QoS == 0 && p.Dup {
			return nil, errors.New("DUP set on a QoS 0 PUBLISH")
		}
	} else {
		f := flags
		if version == V31 && (typ == PUBREL || typ == SUBSCRIBE || typ == UNSUBSCRIBE) {
			f &^= 0x08 // MQTT 3.1: these are QoS 1 messages and may carry DUP
		}
		if f != wantFlags[typ] {
			return nil, fmt.Errorf("fixed header flags 0x%X, want 0x%X", flags, wantFlags[typ])
		}
	}
	if typ == AUTH && !v5 {
		return nil, fmt.Errorf("packet type 15 is reserved in protocol version %d", version)
	}

	switch typ {
	case CONNECT:
		p.ProtoName = r.str("protocol name")
		p.ProtoLevel = r.u8("protocol level")
		if r.err != nil {
			return nil, r.err
		}
		switch {
		case p.ProtoName == "MQIsdp" && p.ProtoLevel == 3:
			p.Version = V31
		case p.ProtoName == "MQTT" && p.ProtoLevel == 4:
			p.Version = V311
		case p.ProtoName == "MQTT" && p.ProtoLevel == 5:
			p.Version = V5
		default:
			return nil, fmt.Errorf("unsupported protocol name/level %q/%d", p.ProtoName, p.ProtoLevel)
		}
		v5 = p.Version == V5
		r.strictVarint = v5
		cf := r.u8("connect flags")
		if r.err == nil && cf&0x01 != 0 {
			return nil, errors.New("reserved connect flag set")
		}
		p.CleanStart = cf&0x02 != 0
		p.WillFlag = cf&0x04 != 0
		p.WillQoS = cf >> 3 & 3
		p.WillRetain = cf&0x20 != 0
		p.HasPassword = cf&0x40 != 0
		p.HasUsername = cf&0x80 != 0
		if r.err == nil {
			if p.WillQoS == 3 {
				return nil, errors.New("will QoS 3")
			}
			if !p.WillFlag && (p.WillQoS != 0 || p.WillRetain) {
				return nil, errors.New("will QoS/retain set without will flag")
			}
			if !v5 && p.HasPassword && !p.HasUsername {
				return nil, errors.New("password flag without user name flag")
			}
		}
		p.KeepAlive = r.u16("keep alive")
		if v5 {
			p.Props = r.props(CONNECT)
		}
		p.ClientID = r.str("client identifier")
		if p.WillFlag {
			if v5 {
				p.WillProps = r.props(ctxWill)
			}
			p.WillTopic = r.str("will topic")
			if r.err == nil && !validTopicName(p.WillTopic) {
				return nil, fmt.Errorf("will topic %q is not a valid topic name", p.WillTopic)
			}
			p.WillPayload = r.bin("will payload")
		}
		if p.HasUsername {
			p.Username = r.str("user name")
		}
		if p.HasPassword {
			p.Password = r.bin("password")
		}

	case CONNACK:
		af := r.u8("acknowledge flags")
		if r.err == nil && af&0xFE != 0 {
			return nil, fmt.Errorf("reserved acknowledge flags 0x%02X", af)
		}
		p.SessionPresent = af&1 != 0
		if v5 {
			p.Code = r.reason(CONNACK)
			p.Props = r.props(CONNACK)
		} else {
			p.Code = r.u8("return code")
			if r.err == nil && p.Code > 5 {
				return nil, fmt.Errorf("return code %d", p.Code)
			}
		}
		if r.err == nil && p.Code != 0 && p.SessionPresent {
			return nil, errors.New("session present with a non-zero return code")
		}

	case PUBLISH:
		p.Topic = r.str("topic name")
		if r.err == nil && strings.ContainsAny(p.Topic, "+#") {
			return nil, fmt.Errorf("topic name %q contains wildcards", p.Topic)
		}
		if p.QoS > 0 {
			p.PacketID = r.u16("packet identifier")
			if r.err == nil && p.PacketID == 0 {
				return nil, errors.New("packet identifier 0")
			}
		}
		if v5 {
			p.Props = r.props(PUBLISH)
		}
		if r.err == nil && p.Topic == "" && (p.Props == nil || p.Props.TopicAlias == nil) {
			return nil, errors.New("empty topic name without topic alias")
		}
		if r.err == nil {
			p.Payload = r.rest()
		}

	case PUBACK, PUBREC, PUBREL, PUBCOMP:
		p.PacketID = r.pid()
		if v5 && r.left() > 0 {
			p.Code = r.reason(typ)
			if r.left() > 0 {
				p.Props = r.props(int(typ))
			}
		}

	case SUBSCRIBE:
		p.PacketID = r.pid()
		if v5 {
			p.Props = r.props(SUBSCRIBE)
		}
		if r.err == nil && r.left() == 0 {
			return nil, errors.New("no topic filters")
		}
		for r.err == nil && r.left() > 0 {
			var s SubTopic
			s.Filter = r.str("topic filter")
			o := r.u8("subscription options")
			if r.err != nil {
				break
			}
			if !ValidFilter(s.Filter) {
				return nil, fmt.Errorf("invalid topic filter %q", s.Filter)
			}
			s.QoS = o & 3
			if s.QoS == 3 {
				return nil, errors.New("requested QoS 3")
			}
			if v5 {
				if o&0xC0 != 0 {
					return nil, fmt.Errorf("reserved subscription option bits set (0x%02X)", o)
				}
				s.NoLocal, s.RAP, s.RH = o&0x04 != 0, o&0x08 != 0, o>>4&3
				if s.RH == 3 {
					return nil, errors.New("retain handling 3")
				}
				if s.NoLocal && strings.HasPrefix(s.Filter, "$share/") {
					return nil, errors.New("no local on a shared subscription")
				}
			} else if o&0xFC != 0 {
				return nil, fmt.Errorf("reserved requested QoS bits set (0x%02X)", o)
			}
			p.Subs = append(p.Subs, s)
		}

	case SUBACK:
		p.PacketID = r.pid()
		if v5 {
			p.Props = r.props(SUBACK)
		}
		if r.err == nil && r.left() == 0 {
			return nil, errors.New("no return codes")
		}
		if r.err == nil {
			p.Codes = r.rest()
			for _, c := range p.Codes {
				if v5 && !ValidReasonCode(SUBACK, c) || !v5 && c > 2 && c != 0x80 {
					return nil, fmt.Errorf("return code 0x%02X not defined for SUBACK", c)
				}
			}
		}

	case UNSUBSCRIBE:
		p.PacketID = r.pid()
		if v5 {
			p.Props = r.props(UNSUBSCRIBE)
		}
		if r.err == nil && r.left() == 0 {
			return nil, errors.New("no topic filters")
		}
		for r.err == nil && r.left() > 0 {
			f := r.str("topic filter")
			if r.err == nil && !ValidFilter(f) {
				return nil, fmt.Errorf("invalid topic filter %q", f)
			}
			p.Unsubs = append(p.Unsubs, f)
		}

	case UNSUBACK:
		p.PacketID = r.pid()
		if v5 {
			p.Props = r.props(UNSUBACK)
			if r.err == nil && r.left() == 0 {
				return nil, errors.New("no reason codes")
			}
			if r.err == nil {
				p.Codes = r.rest()
				for _, c := range p.Codes {
					if !ValidReasonCode(UNSUBACK, c) {
						return nil, fmt.Errorf("reason code 0x%02X not defined for UNSUBACK", c)
					}
				}
			}
		}

	case PINGREQ, PINGRESP:

	case DISCONNECT, AUTH:
		if v5 && r.left() > 0 {
			p.Code = r.reason(typ)
			if r.left() > 0 {
				p.Props = r.props(int(typ))
			}
		}
	}
	if r.err != nil {
		return nil, r.err
	}
	if r.left() != 0 {
		return nil, fmt.Errorf("%d trailing bytes", r.left())
	}
	return p, nil
}

func (r *rd) pid() uint16 {
	v := r.u16("packet identifier")
	if r.err == nil && v == 0 {
		r.failf("packet identifier 0")
	}
	return v
}
