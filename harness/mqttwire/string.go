package mqttwire

import (
	"fmt"
	"strings"
)

func showBytes(b []byte) string {
	const max = 32
	printable := true
	for _, c := range b {
		if c < 0x20 || c > 0x7E {
			printable = false
			break
		}
	}
	if len(b) <= max {
		if printable {
			return fmt.Sprintf("%q", b)
		}
		return fmt.Sprintf("x%x", b)
	}
	if printable {
		return fmt.Sprintf("%q...(%d)", b[:max], len(b))
	}
	return fmt.Sprintf("x%x...(%d)", b[:max], len(b))
}

func verName(v byte) string {
	switch v {
	case V31:
		return "v3.1"
	case V311:
		return "v3.1.1"
	case V5:
		return "v5"
	}
	return fmt.Sprintf("v?%d", v)
}

// String renders the packet on one line for logs.
func (p *Packet) String() string {
	if p == nil {
		return "<nil>"
	}
	var sb strings.Builder
	add := func(f string, a ...interface{}) { fmt.Fprintf(&sb, f, a...) }
	add("%s[%s", TypeName(p.Type), verName(p.Version))
	switch p.Type {
	case CONNECT:
		add(" proto=%q/%d id=%q clean=%t ka=%d", p.ProtoName, p.ProtoLevel, p.ClientID, p.CleanStart, p.KeepAlive)
		if p.WillFlag {
			add(" will{q%d r%t topic=%q payload=%s", p.WillQoS, p.WillRetain, p.WillTopic, showBytes(p.WillPayload))
			if p.WillProps != nil {
				add(" props=%s", p.WillProps)
			}
			add("}")
		}
		if p.HasUsername {
			add(" user=%q", p.Username)
		}
		if p.HasPassword {
			add(" pass=%s", showBytes(p.Password))
		}
	case CONNACK:
		add(" sp=%t code=0x%02X", p.SessionPresent, p.Code)
	case PUBLISH:
		add(" d%d q%d r%d", b2i(p.Dup, 1), p.QoS, b2i(p.Retain, 1))
		if p.QoS > 0 {
			add(" pid=%d", p.PacketID)
		}
		add(" topic=%q payload=%s", p.Topic, showBytes(p.Payload))
	case PUBACK, PUBREC, PUBREL, PUBCOMP:
		add(" pid=%d code=0x%02X", p.PacketID, p.Code)
	case SUBSCRIBE:
		add(" pid=%d", p.PacketID)
		for _, s := range p.Subs {
			add(" {%q q%d", s.Filter, s.QoS)
			if s.NoLocal {
				add(" nl")
			}
			if s.RAP {
				add(" rap")
			}
			if s.RH != 0 {
				add(" rh%d", s.RH)
			}
			add("}")
		}
	case SUBACK, UNSUBACK:
		add(" pid=%d codes=%x", p.PacketID, p.Codes)
	case UNSUBSCRIBE:
		add(" pid=%d %q", p.PacketID, p.Unsubs)
	case DISCONNECT, AUTH:
		add(" code=0x%02X", p.Code)
	}
	if p.Props != nil {
		add(" props=%s", p.Props)
	}
	add("]")
	return sb.String()
}
