// suback replays the histories printed by TLC from spec/SubAck.tla on real brokers (one per delivery mode): one fresh
// session per history through the independent codec; every SUBACK / UNSUBACK (type and reason code per entry) and the
// deliveries of the probe publications (number of copies per QoS) are compared with what the specification demands.
package main

import (
	"encoding/json"
	"flag"
	"fmt"
	"os"
	"strings"
	"sync"
	"sync/atomic"
	"time"

	"verifharness/inproc"
	mw "verifharness/mqttwire"
	"verifharness/tc"
)

type Entry struct {
	F  string `json:"f"`
	Q  int    `json:"q"`
	NL bool   `json:"nl"`
}

type Step struct {
	Op      string   `json:"op"`
	Entries []Entry  `json:"entries"`
	Names   []string `json:"names"`
}

type Ack struct {
	T     string `json:"t"`
	Codes []int  `json:"codes"`
}

type Probe struct {
	Name string `json:"name"`
	Self bool   `json:"self"`
	Want []int  `json:"want"`
}

type Line struct {
	Ver    int     `json:"ver"`
	Mode   string  `json:"mode"`
	Steps  []Step  `json:"steps"`
	Acks   []Ack   `json:"acks"`
	Probes []Probe `json:"probes"`
}

var (
	rep     = tc.NewReporter()
	mu      sync.Mutex
	brokers = map[string]*inproc.Broker{}
	ncase   int64
	ackTO   = 3 * time.Second
)

func broker(mode string) (*inproc.Broker, error) {
	mu.Lock()
	defer mu.Unlock()
	if b := brokers[mode]; b != nil {
		return b, nil
	}
	cfg := inproc.DefaultConfig()
	cfg.MQTT.DeliveryMode = mode
	b, err := inproc.Start(inproc.Options{Cfg: cfg})
	if err != nil {
		return nil, err
	}
	brokers[mode] = b
	return b, nil
}

// name of a filter / topic of the alphabet inside the name space of one case
func scoped(pre, n string) string {
	if strings.HasPrefix(n, "$share/") {
		parts := strings.SplitN(n, "/", 3)
		return parts[0] + "/" + parts[1] + "/" + pre + "/" + parts[2]
	}
	return pre + "/" + n
}

func dial(addr string, ver byte, id string) (*mw.Client, error) {
	cl, err := mw.Dial(addr, ver, 3*time.Second)
	for i := 0; err != nil && i < 20; i++ {
		time.Sleep(50 * time.Millisecond)
		cl, err = mw.Dial(addr, ver, 3*time.Second)
	}
	if err != nil {
		return nil, err
	}
	pk := mw.Connect(ver, id, true, 0)
	if ver == mw.V5 {
		pk.Props = &mw.Props{}
	}
	pk.Version = ver
	if err := cl.Send(pk); err != nil {
		cl.Close()
		return nil, err
	}
	ack, _, err := cl.RecvType(mw.CONNACK, ackTO)
	if err != nil || ack.Code != 0 {
		cl.Close()
		return nil, fmt.Errorf("connect %s: %v", id, err)
	}
	return cl, nil
}

func ints(cs []byte) []int {
	out := make([]int, len(cs))
	for i, c := range cs {
		out[i] = int(c)
	}
	return out
}

func same(a, b []int) bool {
	if len(a) != len(b) {
		return false
	}
	for i := range a {
		if a[i] != b[i] {
			return false
		}
	}
	return true
}

func one(js []byte) {
	var l Line
	if err := json.Unmarshal(js, &l); err != nil {
		rep.Div("harness", "cannot parse case: "+err.Error(), js, nil)
		return
	}
	atomic.AddInt64(&rep.N, 1)
	b, err := broker(l.Mode)
	if err != nil {
		rep.Div("harness", "broker start: "+err.Error(), js, nil)
		return
	}
	n := atomic.AddInt64(&ncase, 1)
	pre := fmt.Sprintf("c%d", n)
	end := fmt.Sprintf("e%d", n)
	ver := byte(mw.V311)
	if l.Ver == 5 {
		ver = mw.V5
	}
	s, err := dial(b.Addr, ver, "s"+pre)
	if err != nil {
		rep.Div("harness", err.Error(), js, nil)
		return
	}
	defer s.Close()
	what := func(i int, msg string) string {
		return fmt.Sprintf("MQTT %d, delivery mode %s, history %s, step %d: %s", l.Ver, l.Mode, describe(l.Steps), i+1, msg)
	}
	send := func(c *mw.Client, p *mw.Packet, v byte) error {
		if v == mw.V5 && p.Props == nil {
			p.Props = &mw.Props{}
		}
		p.Version = v
		return c.Send(p)
	}
	// the sentinel subscription (not part of the model)
	send(s, mw.Subscribe(1, mw.SubTopic{Filter: end, QoS: 0}), ver)
	if a, _, err := s.RecvType(mw.SUBACK, ackTO); err != nil || len(a.Codes) != 1 || a.Codes[0] != 0 {
		rep.Div("harness", fmt.Sprintf("sentinel subscription: %v", err), js, nil)
		return
	}
	closed := false
	ok := true
	for i, st := range l.Steps {
		want := l.Acks[i]
		pid := uint16(10 + i)
		var typ byte
		switch st.Op {
		case "sub":
			ts := make([]mw.SubTopic, len(st.Entries))
			for j, e := range st.Entries {
				ts[j] = mw.SubTopic{Filter: scoped(pre, e.F), QoS: byte(e.Q), NoLocal: e.NL}
			}
			send(s, mw.Subscribe(pid, ts...), ver)
			typ = mw.SUBACK
		case "unsub":
			ns := make([]string, len(st.Names))
			for j, x := range st.Names {
				ns[j] = scoped(pre, x)
			}
			send(s, mw.Unsubscribe(pid, ns...), ver)
			typ = mw.UNSUBACK
		}
		got := Ack{T: "silence"}
		deadline := time.Now().Add(ackTO)
		for time.Now().Before(deadline) {
			p, err := s.Recv(time.Until(deadline))
			if err != nil {
				if !mw.IsTimeout(err) {
					got = Ack{T: "closed"}
					closed = true
				}
				break
			}
			if p.Type == mw.DISCONNECT {
				got = Ack{T: "disconnect", Codes: []int{int(p.Code)}}
				closed = true
				break
			}
			if p.Type == typ && p.PacketID == pid {
				got = Ack{T: strings.ToLower(mw.TypeName(typ)), Codes: ints(p.Codes)}
				break
			}
		}
		if want.T == "disconnect" && ver != mw.V5 {
			want = Ack{T: "closed"}
		}
		if got.T != want.T || !same(got.Codes, want.Codes) {
			ok = false
			sig := fmt.Sprintf("ack:%s:v%d:want=%s%v,got=%s%v", st.Op, l.Ver, want.T, want.Codes, got.T, got.Codes)
			rep.Div(sig, what(i, fmt.Sprintf("answered %s %v, demanded %s %v", got.T, got.Codes, want.T, want.Codes)), js, nil)
		}
		if closed || got.T == "silence" {
			break
		}
	}
	if closed {
		if ok {
			atomic.AddInt64(&rep.NonTriv, 1)
		}
		return
	}
	// probes
	var p *mw.Client
	for i, pr := range l.Probes {
		pub := s
		pver := ver
		if !pr.Self {
			if p == nil {
				p, err = dial(b.Addr, mw.V5, "p"+pre)
				if err != nil {
					rep.Div("harness", err.Error(), js, nil)
					return
				}
				defer p.Close()
			}
			pub, pver = p, mw.V5
		}
		topic := scoped(pre, pr.Name)
		send(pub, mw.Publish(topic, 2, false, uint16(100+i), []byte(fmt.Sprintf("probe%d", i))), pver)
		if !pr.Self {
			// complete the publisher's handshake before the sentinel (the message is distributed when PUBLISH is handled)
			if _, _, err := p.RecvType(mw.PUBREC, ackTO); err != nil {
				rep.Div("harness", "probe publisher got no PUBREC: "+err.Error(), js, nil)
				return
			}
			send(p, mw.Ack(mw.PUBREL, uint16(100+i), 0), pver)
		}
		send(pub, mw.Publish(end, 0, false, 0, []byte(fmt.Sprintf("end%d", i))), pver)
		got := []int{0, 0, 0}
		seen := false
		deadline := time.Now().Add(ackTO)
		for !seen && time.Now().Before(deadline) {
			x, err := s.Recv(time.Until(deadline))
			if err != nil {
				break
			}
			switch x.Type {
			case mw.PUBLISH:
				if x.Topic == end {
					seen = string(x.Payload) == fmt.Sprintf("end%d", i)
					continue
				}
				if x.Topic == topic && string(x.Payload) == fmt.Sprintf("probe%d", i) && !x.Dup {
					got[x.QoS]++
				} else {
					rep.Div("probe:stray", what(len(l.Steps), fmt.Sprintf("unexpected PUBLISH on %s (%q, dup=%v) while probing %s", x.Topic, x.Payload, x.Dup, pr.Name)), js, nil)
				}
				if x.QoS == 1 {
					send(s, mw.Ack(mw.PUBACK, x.PacketID, 0), ver)
				} else if x.QoS == 2 {
					send(s, mw.Ack(mw.PUBREC, x.PacketID, 0), ver)
				}
			case mw.PUBREC:
				send(s, mw.Ack(mw.PUBREL, x.PacketID, 0), ver)
			case mw.PUBREL:
				send(s, mw.Ack(mw.PUBCOMP, x.PacketID, 0), ver)
			}
		}
		if !seen {
			rep.Div("harness", what(len(l.Steps), "the sentinel of probe "+pr.Name+" never arrived"), js, nil)
			return
		}
		if !same(got, pr.Want) {
			ok = false
			who := "another client"
			if pr.Self {
				who = "the subscriber itself"
			}
			sig := fmt.Sprintf("probe:%s:self=%v:%s:v%d:want=%v,got=%v", pr.Name, pr.Self, l.Mode, l.Ver, pr.Want, got)
			rep.Div(sig, what(len(l.Steps), fmt.Sprintf("a QoS 2 publication on %s by %s is delivered as %v copies at QoS 0/1/2, demanded %v",
				pr.Name, who, got, pr.Want)), js, nil)
		}
	}
	if ok {
		rep.Sample(js, 3)
		atomic.AddInt64(&rep.NonTriv, 1)
	}
}

func describe(steps []Step) string {
	var sb strings.Builder
	for i, st := range steps {
		if i > 0 {
			sb.WriteString("; ")
		}
		if st.Op == "sub" {
			sb.WriteString("SUBSCRIBE[")
			for j, e := range st.Entries {
				if j > 0 {
					sb.WriteString(", ")
				}
				fmt.Fprintf(&sb, "%s q%d", e.F, e.Q)
				if e.NL {
					sb.WriteString(" nolocal")
				}
			}
			sb.WriteString("]")
		} else {
			sb.WriteString("UNSUBSCRIBE[" + strings.Join(st.Names, ", ") + "]")
		}
	}
	return sb.String()
}

func main() {
	workers := flag.Int("workers", 16, "")
	raw := flag.Bool("raw", false, "stdin lines are plain JSON instead of TLA+ string literals")
	flag.Parse()
	if err := tc.Each(os.Stdin, *workers, *raw, nil, one); err != nil {
		fmt.Fprintln(os.Stderr, err)
		os.Exit(2)
	}
	for _, b := range brokers {
		b.Stop(3 * time.Second)
	}
	rep.Summary(map[string]interface{}{"brokers": len(brokers)})
}
