// wsconn is the behaviour-enumeration driver of property C18 (MQTT over WebSocket).
//
// It starts one in-process gmqtt broker with a plain TCP listener and a real WebSocket listener, reads
// segmentations printed by TLC (spec/WsSeg.tla, one JSON line each) and, for every segmentation, sends one
// hand-encoded MQTT byte stream (CONNECT, SUBSCRIBE to an own topic, PUBLISHes with position-dependent
// payloads, PINGREQ, DISCONNECT) cut into binary WebSocket messages exactly that way.
//
// Oracle: the property says the broker processes the concatenation of the binary payloads, so whatever the
// segmentation the broker has to answer like it answers the same bytes on a byte-stream transport.  The
// reference is therefore the broker's own answer to the same stream over the TCP listener (TCP twin); the
// driver only knows how to frame MQTT packets (fixed header + remaining length) and how many answers each
// client packet causes (checked against the twin; a disagreement is machinery trouble).  The answers are
// compared byte for byte in two lanes (PUBLISH deliveries / everything else) because the broker sends an
// acknowledgement and the delivery of the same PUBLISH from two goroutines.
//
// Packets that the broker can only complete with the last message race with the DISCONNECT in it (the broker
// stops writing as soon as it has handled DISCONNECT); for those a missing tail is tolerated, everything
// completed earlier is awaited before the last message is sent and is compared strictly.
//
// A silent broker is judged with a TCP canary: the twin exchange is repeated on the same broker after the
// WebSocket side made no progress for -soft ms; only if the canary completes and the WebSocket side stays
// silent for a further grace period the scenario counts as stalled.  Diverging scenarios (the smallest of
// each signature) are run again alone and patiently (-patient ms) before they are reported as confirmed.
package main

import (
	"bytes"
	"context"
	"encoding/hex"
	"encoding/json"
	"flag"
	"fmt"
	"net"
	"net/http"
	"os"
	"runtime/debug"
	"sort"
	"sync"
	"sync/atomic"
	"time"

	"github.com/gorilla/websocket"

	"github.com/DrmagicE/gmqtt/config"
	_ "github.com/DrmagicE/gmqtt/persistence"
	"github.com/DrmagicE/gmqtt/server"
	_ "github.com/DrmagicE/gmqtt/topicalias/fifo"

	mw "verifharness/mqttwire"
	"verifharness/tc"
)

// ------------------------------------------------------------------ intrinsic reference
//
// Normally the reference for "what processing this byte stream means" is the same stream over the broker's TCP listener (the
// twin), compared byte for byte.  When the twin itself fails its self-check (the packet reader is broken for every
// transport), the reference is what MQTT demands for the stream, compared packet by packet after decoding with the
// independent codec: CONNACK 0, SUBACK [0], PUBACK per QoS 1 publication, PINGRESP; one QoS 0 delivery per publication
// with the payload that was sent.
var intrinsicRef string // non-empty: why the twin is not used

func canonPacket(raw []byte, ver int) []byte {
	v := byte(mw.V311)
	if ver == 5 {
		v = mw.V5
	}
	p, err := mw.DecodeBytes(raw, v)
	if err != nil {
		n := len(raw)
		if n > 16 {
			n = 16
		}
		return []byte(fmt.Sprintf("UNDECODABLE(%d bytes):%x", len(raw), raw[:n]))
	}
	switch p.Type {
	case mw.CONNACK:
		return []byte(fmt.Sprintf("CONNACK:%d", p.Code))
	case mw.SUBACK:
		return []byte(fmt.Sprintf("SUBACK:%d:%v", p.PacketID, p.Codes))
	case mw.PUBACK:
		return []byte(fmt.Sprintf("PUBACK:%d:%d", p.PacketID, p.Code))
	case mw.PINGRESP:
		return []byte("PINGRESP")
	case mw.PUBLISH:
		return []byte(fmt.Sprintf("PUBLISH:%s:q%d:retain=%v:%d bytes:%x", p.Topic, p.QoS, p.Retain, len(p.Payload), sum(p.Payload)))
	}
	return []byte("OTHER:" + mw.TypeName(p.Type))
}

func sum(b []byte) uint64 {
	h := uint64(14695981039346656037)
	for _, c := range b {
		h = (h ^ uint64(c)) * 1099511628211
	}
	return h
}

func canonLanes(l lanes, ver int) lanes {
	var out lanes
	for i := range l {
		for _, raw := range l[i] {
			out[i] = append(out[i], canonPacket(raw, ver))
		}
	}
	return out
}

func intrinsic(p *Profile, topic string) lanes {
	var out lanes
	add := func(lane int, s string) { out[lane] = append(out[lane], []byte(s)) }
	add(laneResp, "CONNACK:0")
	if p.Sub {
		add(laneResp, "SUBACK:1:[0]")
	}
	for i, pb := range p.Pubs {
		if pb.Q > 0 {
			add(laneResp, fmt.Sprintf("PUBACK:%d:0", i+10))
		}
		if p.Sub {
			add(laneDeliv, fmt.Sprintf("PUBLISH:%s:q0:retain=false:%d bytes:%x", topic, pb.N, sum(payload(i, pb.N))))
		}
	}
	if p.Ping {
		add(laneResp, "PINGRESP")
	}
	return out
}

// ------------------------------------------------------------------ stream profiles

type Pub struct {
	Q int `json:"q"` // QoS of the client's PUBLISH
	N int `json:"n"` // payload bytes
}

type Profile struct {
	Name    string `json:"name"`
	Ver     int    `json:"ver"`      // 4 = MQTT 3.1.1, 5 = MQTT 5
	EmptyID bool   `json:"empty_id"` // CONNECT with an empty client id (no SUBSCRIBE/PUBLISH then)
	Sub     bool   `json:"sub"`      // SUBSCRIBE (QoS 0) to the own topic
	Pubs    []Pub  `json:"pubs"`
	Ping    bool   `json:"ping"`
	NoDisc  bool   `json:"no_disc"` // the stream ends without DISCONNECT (the client just closes the connection)
}

type Pkt struct {
	Kind   string `json:"kind"`
	Start  int    `json:"start"`
	H      int    `json:"h"`
	B      int    `json:"b"`
	NResp  int    `json:"-"` // answers that are not PUBLISH
	NDeliv int    `json:"-"` // PUBLISH deliveries
}

func (p Pkt) End() int { return p.Start + p.H + p.B }

type Stream struct {
	Bytes []byte
	Pk    []Pkt
}

// offset at which DISCONNECT starts (stream length when there is none)
func (s *Stream) discStart() int {
	if l := s.Pk[len(s.Pk)-1]; l.Kind == "DISCONNECT" {
		return l.Start
	}
	return len(s.Bytes)
}

func varint(n int) []byte {
	var b []byte
	for {
		d := byte(n % 128)
		n /= 128
		if n > 0 {
			d |= 0x80
		}
		b = append(b, d)
		if n == 0 {
			return b
		}
	}
}

func str(s string) []byte { return append([]byte{byte(len(s) >> 8), byte(len(s))}, s...) }

func packet(first byte, body []byte) []byte {
	return append(append([]byte{first}, varint(len(body))...), body...)
}

// payload byte j of publish i: adjacent bytes differ, a shift by one changes every byte
func payload(i, n int) []byte {
	b := make([]byte, n)
	for j := range b {
		b[j] = byte((j*7 + (j>>8)*13 + i*29 + 1) % 251)
	}
	return b
}

func build(p *Profile, id, topic string) *Stream {
	s := &Stream{}
	add := func(kind string, raw []byte, nresp, ndeliv int) {
		h := 1
		for raw[h]&0x80 != 0 {
			h++
		}
		h++
		s.Pk = append(s.Pk, Pkt{Kind: kind, Start: len(s.Bytes), H: h, B: len(raw) - h, NResp: nresp, NDeliv: ndeliv})
		s.Bytes = append(s.Bytes, raw...)
	}
	v5 := p.Ver == 5
	// CONNECT: clean session / clean start, keep alive 60 s
	var b []byte
	b = append(b, str("MQTT")...)
	b = append(b, byte(p.Ver), 0x02, 0, 60)
	if v5 {
		b = append(b, 0) // no properties
	}
	if p.EmptyID {
		b = append(b, 0, 0)
	} else {
		b = append(b, str(id)...)
	}
	add("CONNECT", packet(0x10, b), 1, 0)
	if p.Sub {
		b = []byte{0, 1}
		if v5 {
			b = append(b, 0)
		}
		b = append(b, str(topic)...)
		b = append(b, 0) // QoS 0: deliveries carry no packet id
		add("SUBSCRIBE", packet(0x82, b), 1, 0)
	}
	for i, pb := range p.Pubs {
		b = append([]byte(nil), str(topic)...)
		if pb.Q > 0 {
			b = append(b, byte((i+10)>>8), byte(i+10))
		}
		if v5 {
			b = append(b, 0)
		}
		b = append(b, payload(i, pb.N)...)
		nd := 0
		if p.Sub {
			nd = 1
		}
		nr := 0
		if pb.Q > 0 {
			nr = 1
		}
		add(fmt.Sprintf("PUBLISH q%d n%d", pb.Q, pb.N), packet(0x30|byte(pb.Q<<1), b), nr, nd)
	}
	if p.Ping {
		add("PINGREQ", []byte{0xC0, 0}, 1, 0)
	}
	if !p.NoDisc {
		add("DISCONNECT", []byte{0xE0, 0}, 0, 0)
	}
	return s
}

// ------------------------------------------------------------------ receiving side (both transports)

const (
	laneResp  = 0
	laneDeliv = 1
)

type rx struct {
	mu        sync.Mutex
	raw       []byte
	parsed    int
	lanes     [2][][]byte
	nonBinary int
	frames    int
	closed    bool
	closeErr  string
	last      time.Time
	notify    chan struct{}
}

func newRx() *rx { return &rx{notify: make(chan struct{}, 1), last: time.Now()} }

func (r *rx) ping() {
	select {
	case r.notify <- struct{}{}:
	default:
	}
}

func (r *rx) feed(b []byte) {
	r.mu.Lock()
	r.raw = append(r.raw, b...)
	// frame complete MQTT packets
	for {
		rest := r.raw[r.parsed:]
		if len(rest) < 2 {
			break
		}
		h, n, mul, ok := 1, 0, 1, false
		for h < len(rest) && h <= 4 {
			d := rest[h]
			n += int(d&0x7f) * mul
			mul *= 128
			h++
			if d&0x80 == 0 {
				ok = true
				break
			}
		}
		if !ok || len(rest) < h+n {
			break
		}
		pk := rest[:h+n]
		lane := laneResp
		if pk[0]>>4 == 3 {
			lane = laneDeliv
		}
		r.lanes[lane] = append(r.lanes[lane], pk)
		r.parsed += h + n
	}
	r.last = time.Now()
	r.mu.Unlock()
	r.ping()
}

func (r *rx) end(err error) {
	r.mu.Lock()
	r.closed = true
	if err != nil {
		r.closeErr = err.Error()
	}
	r.last = time.Now()
	r.mu.Unlock()
	r.ping()
}

func (r *rx) counts() (int, int, bool) {
	r.mu.Lock()
	defer r.mu.Unlock()
	return len(r.lanes[0]), len(r.lanes[1]), r.closed
}

type patience struct {
	soft   time.Duration                 // no progress for this long => consult the canary
	canary func() (time.Duration, error) // nil: the soft timeout is final (used by the twin itself)
}

// wait until the lanes hold at least (nr, nd) packets (or, with wantClose, until the peer closed).
// Returns "ok", "closed" (peer closed before the goal) or "stalled".
func (r *rx) wait(nr, nd int, wantClose bool, pt patience) string {
	for {
		a, b, closed := r.counts()
		if wantClose {
			if closed {
				return "ok"
			}
		} else {
			if a >= nr && b >= nd {
				return "ok"
			}
			if closed {
				return "closed"
			}
		}
		r.mu.Lock()
		idle := time.Since(r.last)
		mark := r.last
		r.mu.Unlock()
		if idle < pt.soft {
			select {
			case <-r.notify:
			case <-time.After(pt.soft - idle + time.Millisecond):
			}
			continue
		}
		if pt.canary == nil {
			return "stalled"
		}
		d, err := pt.canary()
		if err != nil {
			machinery("TCP canary failed while a WebSocket scenario was silent (both silent): " + err.Error())
		}
		grace := 20 * d
		if grace < 500*time.Millisecond {
			grace = 500 * time.Millisecond
		}
		select {
		case <-r.notify:
		case <-time.After(grace):
		}
		r.mu.Lock()
		progressed := r.last.After(mark)
		r.mu.Unlock()
		if !progressed {
			a, b, closed = r.counts()
			if wantClose && closed || !wantClose && a >= nr && b >= nd {
				return "ok"
			}
			if closed && !wantClose {
				return "closed"
			}
			return "stalled"
		}
	}
}

// ------------------------------------------------------------------ broker

var (
	tcpAddr string
	wsURL   string
	rep     = tc.NewReporter()
	outMu   sync.Mutex
)

func machinery(what string) {
	outMu.Lock()
	b, _ := json.Marshal(map[string]string{"kind": "machinery", "what": what})
	os.Stdout.Write(append(b, '\n'))
	os.Exit(3)
}

func startBroker() func() {
	ln, err := net.Listen("tcp", "127.0.0.1:0")
	if err != nil {
		machinery("listen: " + err.Error())
	}
	tcpAddr = ln.Addr().String()
	got := make(chan string, 1)
	ws := &server.WsServer{
		Server: &http.Server{Addr: "127.0.0.1:0", BaseContext: func(l net.Listener) context.Context {
			got <- l.Addr().String()
			return context.Background()
		}},
		Path: "/",
	}
	cfg := config.DefaultConfig()
	cfg.API = config.API{}
	if *maxPkt > 0 {
		// the limit is per MQTT packet: a WebSocket message may carry many packets and be larger than it
		cfg.MQTT.MaxPacketSize = uint32(*maxPkt)
	}
	srv := server.New(server.WithConfig(cfg), server.WithTCPListener(ln), server.WithWebsocketServer(ws))
	done := make(chan error, 1)
	go func() { done <- srv.Run() }()
	select {
	case a := <-got:
		wsURL = "ws://" + a + "/"
	case err := <-done:
		machinery(fmt.Sprint("broker did not start: ", err))
	case <-time.After(30 * time.Second):
		machinery("broker's websocket listener did not come up")
	}
	return func() {
		ctx, cancel := context.WithTimeout(context.Background(), 20*time.Second)
		defer cancel()
		_ = srv.Stop(ctx)
	}
}

// ------------------------------------------------------------------ TCP twin

type lanes [2][][]byte

var hard = 30 * time.Second

// twin sends the stream over the TCP listener: everything but DISCONNECT, waits for the answers, then
// DISCONNECT (gmqtt leaves closing the connection to the client, so the twin closes it).
// stepwise: packet by packet, each answered before the next is sent.
func twin(st *Stream, stepwise bool) (lanes, time.Duration, error) {
	t0 := time.Now()
	var out lanes
	c, err := net.DialTimeout("tcp", tcpAddr, hard)
	if err != nil {
		return out, 0, fmt.Errorf("twin dial: %v", err)
	}
	defer c.Close()
	r := newRx()
	go func() {
		buf := make([]byte, 32<<10)
		for {
			n, err := c.Read(buf)
			if n > 0 {
				r.feed(buf[:n])
			}
			if err != nil {
				r.end(err)
				return
			}
		}
	}()
	pt := patience{soft: hard}
	nr, nd := 0, 0
	_ = c.SetWriteDeadline(time.Now().Add(2 * hard))
	for i, p := range st.Pk {
		if p.Kind == "DISCONNECT" || i == len(st.Pk)-1 {
			// everything before must have been answered
			if p.Kind != "DISCONNECT" {
				if _, err := c.Write(st.Bytes[p.Start:p.End()]); err != nil {
					return out, 0, fmt.Errorf("twin write %s: %v", p.Kind, err)
				}
				nr += p.NResp
				nd += p.NDeliv
			}
			if w := r.wait(nr, nd, false, pt); w != "ok" {
				a, b, _ := r.counts()
				return out, 0, fmt.Errorf("twin %s before %s: have %d+%d answers, want %d+%d", w, p.Kind, a, b, nr, nd)
			}
			if p.Kind == "DISCONNECT" {
				if _, err := c.Write(st.Bytes[p.Start:p.End()]); err != nil {
					return out, 0, fmt.Errorf("twin write %s: %v", p.Kind, err)
				}
			}
			break
		}
		if _, err := c.Write(st.Bytes[p.Start:p.End()]); err != nil {
			return out, 0, fmt.Errorf("twin write %s: %v", p.Kind, err)
		}
		nr += p.NResp
		nd += p.NDeliv
		if stepwise {
			if w := r.wait(nr, nd, false, pt); w != "ok" {
				a, b, _ := r.counts()
				return out, 0, fmt.Errorf("twin %s after %s: have %d+%d answers, want %d+%d", w, p.Kind, a, b, nr, nd)
			}
		}
	}
	r.mu.Lock()
	defer r.mu.Unlock()
	if len(r.lanes[0]) != nr || len(r.lanes[1]) != nd || r.parsed != len(r.raw) {
		var sizes []int
		for _, d := range r.lanes[1] {
			sizes = append(sizes, len(d))
		}
		return out, 0, fmt.Errorf("twin: %d+%d answers (+%d stray bytes), the driver expects %d+%d; sizes of the deliveries: %v", len(r.lanes[0]),
			len(r.lanes[1]), len(r.raw)-r.parsed, nr, nd, sizes)
	}
	out = r.lanes
	return out, time.Since(t0), nil
}

// ------------------------------------------------------------------ scenarios

type Line struct {
	Stream string `json:"stream"`
	Fam    string `json:"fam"`
	A      int    `json:"a"`
	B      int    `json:"b"`
	Z      int    `json:"z"`
	Text   int    `json:"text"`
	Seg    []int  `json:"seg"`
	Drop   int    `json:"drop"`
	Dropn  int    `json:"dropn"`
	Trail  int    `json:"trail"` // bytes appended behind DISCONNECT in the last message (never processed)
}

type Result struct {
	OK          bool   `json:"ok"`
	Kind        string `json:"kind,omitempty"`
	Detail      string `json:"detail,omitempty"`
	Explained   bool   `json:"explained_by_deviation"`
	Strict      bool   `json:"strict"` // no packet shares the last message with DISCONNECT
	N           int    `json:"n"`
	Chunks      int    `json:"chunks"`
	Demanded    string `json:"demanded,omitempty"`
	Observed    string `json:"observed,omitempty"`
	Confirmed   bool   `json:"confirmed"`
	DropSent    bool   `json:"-"` // the deviation model loses a byte among the bytes that were sent
	dupDelivery bool
	Sig         string `json:"-"`
	line        []byte
	ln          *Line
}

var (
	profiles = map[string]*Profile{}
	seq      int64
	maxPkt   = flag.Int("maxpkt", 0, "mqtt.max_packet_size of the broker (0 = default)")
	softMs   = flag.Int("soft", 1500, "ms without progress before the canary is consulted (bulk)")
	patMs    = flag.Int("patient", 8000, "the same for the confirmation runs")
	victims  = flag.Int("victims", 0, "scenarios with a tail behind DISCONNECT are followed by a fresh connection, that many rounds")
	lingerMs = flag.Int("linger", 250, "ms to wait for answers that may legitimately be lost (packets sharing a message with DISCONNECT)")
)

var (
	anomMu    sync.Mutex
	anomalies []string
)

func twinAnomaly(what string) {
	anomMu.Lock()
	anomalies = append(anomalies, what)
	anomMu.Unlock()
}

func ids() (tw, wsid, canary, topic string) {
	k := atomic.AddInt64(&seq, 1)
	return fmt.Sprintf("t%07d", k), fmt.Sprintf("w%07d", k), fmt.Sprintf("k%07d", k), fmt.Sprintf("s/%07d", k)
}

func firstBad(obs, ref [][]byte) int {
	for i := range ref {
		if i >= len(obs) || !bytes.Equal(obs[i], ref[i]) {
			return i
		}
	}
	if len(obs) > len(ref) {
		return len(ref)
	}
	return 1 << 30
}

// subseq checks obs against ref: the first `strict` packets must be equal one by one, later ones may skip reference
// packets.  It returns the index of the first observed packet that does not fit (-1: none) and the reference position.
func subseq(obs, ref [][]byte, strict int) (int, int) {
	ptr := 0
	for k, o := range obs {
		if k < strict {
			if ptr < len(ref) && bytes.Equal(o, ref[ptr]) {
				ptr++
				continue
			}
			return k, ptr
		}
		idx := ptr
		for idx < len(ref) && !bytes.Equal(o, ref[idx]) {
			idx++
		}
		if idx == len(ref) {
			return k, ptr
		}
		ptr = idx + 1
	}
	return -1, ptr
}

func segText(seg []int) string {
	if len(seg) <= 8 {
		return fmt.Sprint(seg)
	}
	return fmt.Sprint(seg[:4]) + ".." + fmt.Sprint(seg[len(seg)-2:])
}

func snip(b []byte) string {
	if len(b) > 24 {
		return fmt.Sprintf("%s..%s(%d bytes)", hex.EncodeToString(b[:12]), hex.EncodeToString(b[len(b)-8:]), len(b))
	}
	return hex.EncodeToString(b)
}

func describeLane(l [][]byte, i int) string {
	if i < len(l) {
		return snip(l[i])
	}
	return "nothing"
}

func diffAt(a, b []byte) int {
	for i := 0; i < len(a) && i < len(b); i++ {
		if a[i] != b[i] {
			return i
		}
	}
	return min(len(a), len(b))
}

// runScenario runs the scenario; a run that only differs from the reference by a repeated delivery (an anomaly of the
// broker's session queue that the TCP twin shows as well, about once in 10^5 exchanges) is noted and repeated.
func runScenario(ln *Line, raw []byte, soft time.Duration) *Result {
	if ln.Trail > 0 && *victims > 0 {
		return runWithVictims(ln, raw, soft)
	}
	return runScenario1(ln, raw, soft)
}

// runWithVictims: the scenario leaves bytes behind its DISCONNECT that the broker never reads.  Every connection made
// afterwards must still see exactly its own bytes: the same stream in one message on a NEW connection, -victims times.
func runWithVictims(ln *Line, raw []byte, soft time.Duration) *Result {
	var res *Result
	for round := 0; round < *victims; round++ {
		res = runScenario1(ln, raw, soft)
		if !res.OK {
			return res
		}
		p := profiles[ln.Stream]
		n := len(build(p, "w0000000", "s/0000000").Bytes)
		vl := &Line{Stream: ln.Stream, Fam: "victim", Seg: []int{n}}
		v := runScenario1(vl, raw, soft)
		if !v.OK {
			v.ln = ln
			v.line = raw
			v.Detail = fmt.Sprintf("a NEW connection (the same stream in one message) made after a connection that left %d unread bytes behind its DISCONNECT: %s", ln.Trail, v.Detail)
			v.Sig = "ws-foreign-bytes:" + v.Kind
			return v
		}
	}
	return res
}

func runScenario1(ln *Line, raw []byte, soft time.Duration) *Result {
	for try := 0; ; try++ {
		res := runOnce(ln, raw, soft)
		if res.OK || !res.dupDelivery || try == 2 {
			return res
		}
		twinAnomaly("websocket run of " + ln.Stream + ": a delivery arrived twice (" + res.Detail + "); scenario repeated")
	}
}

// withoutRepeats drops deliveries that repeat their predecessor (DUP flag ignored)
func withoutRepeats(l [][]byte) [][]byte {
	var out [][]byte
	for i, p := range l {
		if i > 0 && len(p) == len(l[i-1]) && p[0]&^0x08 == l[i-1][0]&^0x08 && bytes.Equal(p[1:], l[i-1][1:]) {
			continue
		}
		out = append(out, p)
	}
	return out
}

func runOnce(ln *Line, raw []byte, soft time.Duration) *Result {
	p := profiles[ln.Stream]
	if p == nil {
		machinery("unknown stream " + ln.Stream)
	}
	tw, wsid, _, topic := ids()
	res := &Result{line: raw, ln: ln, Chunks: len(ln.Seg)}
	var ref lanes
	var err error
	if intrinsicRef != "" {
		ref = intrinsic(p, topic)
	} else {
		ref, _, err = twin(build(p, tw, topic), false)
		for try := 0; err != nil; try++ {
			// the reference itself misbehaved (not a WebSocket matter): note it, take a fresh client id and topic
			twinAnomaly(ln.Stream + ": " + err.Error())
			if try == 2 {
				// the broker does not get through this stream over TCP either: from here on the reference is what MQTT demands
				intrinsicRef = "TCP twin failed three times in a row on stream " + ln.Stream + ": " + err.Error()
				ref, err = intrinsic(p, topic), nil
				break
			}
			tw, wsid, _, topic = ids()
			ref, _, err = twin(build(p, tw, topic), false)
		}
	}
	st := build(p, wsid, topic)
	res.N = len(st.Bytes)
	sum := 0
	for _, c := range ln.Seg {
		sum += c
	}
	if sum != len(st.Bytes) {
		machinery(fmt.Sprintf("segmentation of %d bytes for stream %s of %d bytes", sum, ln.Stream, len(st.Bytes)))
	}
	pt := patience{soft: soft, canary: func() (d time.Duration, err error) {
		if intrinsicRef != "" {
			return 0, nil // (no TCP canary when the TCP side is what is broken)
		}
		for try := 0; try < 3; try++ {
			_, _, cid, ctopic := ids() // fresh: a canary must not take over anybody's session
			if _, d, err = twin(build(p, cid, ctopic), false); err == nil {
				return d, nil
			}
			twinAnomaly("canary " + ln.Stream + ": " + err.Error())
		}
		return d, err
	}}

	d := websocket.Dialer{Subprotocols: []string{"mqtt"}, HandshakeTimeout: hard}
	c, resp, err := d.Dial(wsURL, nil)
	if err != nil {
		machinery("websocket dial: " + err.Error())
	}
	defer c.Close()
	if resp.Header.Get("Sec-Websocket-Protocol") != "mqtt" {
		res.Kind, res.Detail = "subprotocol", "the broker did not select the mqtt subprotocol: "+resp.Header.Get("Sec-Websocket-Protocol")
	}
	r := newRx()
	go func() {
		for {
			mt, data, err := c.ReadMessage()
			if err != nil {
				r.end(err)
				return
			}
			r.mu.Lock()
			r.frames++
			if mt != websocket.BinaryMessage {
				r.nonBinary++
			}
			r.mu.Unlock()
			r.feed(data)
		}
	}()

	// cumulative answers owed once the first `off` bytes have reached the broker
	owed := func(off int) (nr, nd, npk int) {
		for _, pk := range st.Pk {
			if pk.End() <= off {
				nr += pk.NResp
				nd += pk.NDeliv
				npk++
			}
		}
		return
	}
	// With DISCONNECT at the end the message that completes the stream is held back until everything owed so far
	// has arrived (the same for a text message): what the broker still has to write when it handles DISCONNECT
	// may legitimately be lost.
	discAt := st.discStart()
	hasDisc := discAt < len(st.Bytes)
	final := len(ln.Seg) - 1
	for final > 0 && ln.Seg[final] == 0 {
		final--
	}
	if ln.Text > 0 {
		final = ln.Text - 1
	}
	off := 0
	var sr, sd int // strictly owed
	status, writeErr := "ok", ""
	res.Strict = true
	for i, n := range ln.Seg {
		if i == final && (hasDisc || ln.Text > 0) {
			sr, sd, _ = owed(off)
			res.Strict = off >= discAt || ln.Text > 0
			status = r.wait(sr, sd, false, pt)
			if status != "ok" {
				break
			}
		}
		mt := websocket.BinaryMessage
		if ln.Text > 0 && i == final {
			mt = websocket.TextMessage
		}
		_ = c.SetWriteDeadline(time.Now().Add(2 * hard))
		chunk := st.Bytes[off : off+n]
		if ln.Trail > 0 && hasDisc && ln.Text == 0 && off+n == len(st.Bytes) && n > 0 {
			chunk = append(append([]byte(nil), chunk...), make([]byte, ln.Trail)...)
		}
		if err := c.WriteMessage(mt, chunk); err != nil {
			if i > final && hasDisc {
				break
			}
			// the broker went away while we were still sending: everything owed for the bytes it got is still owed
			status = "closed"
			sr, sd, _ = owed(off)
			writeErr = err.Error()
			break
		}
		if ln.Text > 0 && i == final {
			break // `off` stays at the start of the text message: its bytes do not count as sent
		}
		off += n
	}
	closeStatus := ""
	if status == "ok" {
		ar, ad, _ := owed(len(st.Bytes))
		switch {
		case ln.Text > 0:
			closeStatus = r.wait(0, 0, true, pt)
		case !hasDisc:
			sr, sd = ar, ad
			status = r.wait(sr, sd, false, pt)
		case !res.Strict:
			// answers to packets that share the last message with DISCONNECT: take what comes
			r.wait(ar, ad, false, patience{soft: time.Duration(*lingerMs) * time.Millisecond})
		}
	}
	r.mu.Lock()
	obs := r.lanes
	if intrinsicRef != "" {
		obs = canonLanes(obs, p.Ver)
	}
	stray := len(r.raw) - r.parsed
	tail := append([]byte(nil), r.raw[r.parsed:]...)
	nonBin := r.nonBinary
	closeErr := r.closeErr
	gone := r.closed || status == "closed"
	r.mu.Unlock()

	fb := [2]int{firstBad(obs[0], ref[0]), firstBad(obs[1], ref[1])}
	name := [2]string{"answers", "deliveries"}
	set := func(kind, detail string) {
		if res.Kind == "" {
			res.Kind, res.Detail = kind, detail
		}
	}
	mismatch := func(lane, i, at int) {
		res.Demanded = fmt.Sprintf("%s[%d] = %s", name[lane], at, describeLane(ref[lane], at))
		res.Observed = fmt.Sprintf("%s[%d] = %s", name[lane], i, describeLane(obs[lane], i))
		if i < len(obs[lane]) && at < len(ref[lane]) {
			res.Observed += fmt.Sprintf(" (first difference at byte %d of the packet)", diffAt(obs[lane][i], ref[lane][at]))
		}
	}
	if nonBin > 0 {
		set("nonbinary", fmt.Sprintf("%d messages from the broker were not binary messages", nonBin))
	}
	want := [2]int{sr, sd}
	if writeErr != "" {
		// the twin was not disconnected, so this is a divergence even if nothing was owed yet
		set("closed-early", fmt.Sprintf("the broker closed the connection after %d of %d bytes (%s)", off, len(st.Bytes), writeErr))
		res.Demanded, res.Observed = "the connection stays open until the client has sent the stream", "closed by the broker"
	}
	for lane := 0; lane < 2; lane++ {
		// the first want[lane] packets are owed exactly; what follows (answers to packets that share the last message with
		// DISCONNECT) may have gaps - gmqtt drops an arbitrary subset of what it still has to write - but nothing may be wrong
		bad, at := subseq(obs[lane], ref[lane], want[lane])
		switch {
		case bad >= 0 && bad < want[lane]:
			set("mismatch", fmt.Sprintf("%s[%d], owed for the bytes sent so far, differs from the TCP twin", name[lane], bad))
			mismatch(lane, bad, at)
		case len(obs[lane]) < want[lane]:
			k := map[string]string{"stalled": "silent", "closed": "closed-early", "ok": "missing"}[status]
			set(k, fmt.Sprintf("%s[%d], owed for the bytes sent so far, did not arrive (wait: %s %s)", name[lane], len(obs[lane]), status, closeErr))
			mismatch(lane, len(obs[lane]), len(obs[lane]))
		case bad >= 0 && ln.Text > 0:
			set("text-accepted", fmt.Sprintf("the broker answered the content of a text message: %s[%d] = %s", name[lane], bad, snip(obs[lane][bad])))
		case bad >= 0:
			set("mismatch", fmt.Sprintf("%s[%d] is not what the TCP twin received (next or later)", name[lane], bad))
			mismatch(lane, bad, at)
		}
	}
	if ln.Text > 0 {
		if status == "ok" && closeStatus != "ok" {
			set("text-no-close", "the connection stayed open after a text message")
		}
		if stray > 0 {
			set("text-accepted", fmt.Sprintf("%d bytes after the text message", stray))
		}
	} else if stray > 0 {
		// an incomplete packet at the end: only acceptable as the beginning of a packet whose loss is tolerated
		okPrefix := false
		for lane := 0; lane < 2 && !res.Strict; lane++ {
			for i := want[lane]; i < len(ref[lane]); i++ {
				if bytes.HasPrefix(ref[lane][i], tail) {
					okPrefix = true
				}
			}
		}
		if !okPrefix {
			set("mismatch", fmt.Sprintf("%d stray bytes that are not a complete packet at the end of the broker's output: %s", stray, snip(tail)))
		}
	}
	res.DropSent = ln.Drop >= 0 && ln.Drop < off
	if res.Kind == "" {
		res.OK = true
		return res
	}
	if d := withoutRepeats(obs[1]); len(d) < len(obs[1]) && len(withoutRepeats(ref[1])) == len(ref[1]) {
		if bad, _ := subseq(d, ref[1], min(want[1], len(d))); bad < 0 && firstBad(obs[0], ref[0]) >= len(obs[0]) {
			res.dupDelivery = true
		}
	}
	// classification: is the divergence what the named deviation DropLastWhenOneLeft predicts for this segmentation?
	// (for a text scenario the prediction counts when the lost byte precedes the text message)
	unrelated := map[string]bool{"text-accepted": true, "text-no-close": true, "nonbinary": true, "subprotocol": true}[res.Kind]
	if ln.Drop >= 0 && ln.Drop < off && !unrelated {
		j := 0
		for j < len(st.Pk) && st.Pk[j].End() <= ln.Drop {
			j++
		}
		cr, cd := 0, 0
		for _, pk := range st.Pk[:j] {
			cr += pk.NResp
			cd += pk.NDeliv
		}
		// Answers owed for packets before the one that contains the lost byte must be right.  When the broker closed the
		// connection (it met garbage after the lost byte) it dropped an arbitrary subset of what it had not written yet.
		res.Explained = gone || fb[0] >= cr && fb[1] >= cd
	}
	if res.Explained {
		res.Sig = "wsconn-read-drops-last-byte-when-one-left"
	} else {
		res.Sig = "ws-" + res.Kind
		if ln.Z > 0 {
			res.Sig += "+empty-messages"
		}
	}
	return res
}

// ------------------------------------------------------------------ main

var nDivergent, skippedAfterDivs int64

func main() {
	profPath := flag.String("profiles", "", "JSON file with the stream profiles")
	describe := flag.Bool("describe", false, "print the packets of every profile and exit")
	par := flag.Int("par", 48, "scenarios in flight")
	raw := flag.Bool("raw", false, "stdin holds plain JSON lines (not TLC string literals)")
	gcPct := flag.Int("gc", 200, "GOGC")
	confirmN := flag.Int("confirm", 2, "divergent scenarios per signature that are run again alone")
	flag.Parse()
	debug.SetGCPercent(*gcPct) // tc's default (2000) makes this network-bound driver spend its time in page faults
	var list []*Profile
	b, err := os.ReadFile(*profPath)
	if err == nil {
		err = json.Unmarshal(b, &list)
	}
	if err != nil {
		machinery("profiles: " + err.Error())
	}
	for _, p := range list {
		profiles[p.Name] = p
	}
	if *describe {
		var out []map[string]interface{}
		for _, p := range list {
			st := build(p, "w0000000", "s/0000000")
			out = append(out, map[string]interface{}{"name": p.Name, "n": len(st.Bytes), "pk": st.Pk})
		}
		b, _ := json.Marshal(out)
		fmt.Println(string(b))
		return
	}
	stop := startBroker()

	// self-check of the reference: the twin's answer must not depend on timing (one write burst vs. stepwise)
	for _, p := range list {
		tw, tw2, _, topic := ids()
		a, _, err := twin(build(p, tw, topic), false)
		if err != nil {
			intrinsicRef = "self-check twin: " + err.Error()
			break
		}
		c, _, err := twin(build(p, tw2, topic), true)
		if err != nil {
			intrinsicRef = "self-check twin (stepwise): " + err.Error()
			break
		}
		for lane := 0; lane < 2; lane++ {
			if firstBad(a[lane], c[lane]) != 1<<30 {
				machinery(fmt.Sprintf("the TCP reference of stream %s is not deterministic (lane %d)", p.Name, lane))
			}
		}
		// the twin agrees with what MQTT demands for the stream (so that both references mean the same)
		want := intrinsic(p, topic)
		got := canonLanes(a, p.Ver)
		for lane := 0; lane < 2; lane++ {
			if firstBad(got[lane], want[lane]) != 1<<30 || len(got[lane]) != len(want[lane]) {
				machinery(fmt.Sprintf("the TCP twin's answers to stream %s are not what the intrinsic reference demands (lane %d): %q vs %q", p.Name, lane, got[lane], want[lane]))
			}
		}
	}

	var mu sync.Mutex
	var divs []*Result
	var predictedOKStrictBin int64
	var predicted, predictedOKStrict, predictedOKTolerant, strictN, textN, bytesSent, msgsSent int64
	perFam := map[string]int64{}
	var mispred []json.RawMessage
	err = tc.Each(os.Stdin, *par, *raw, nil, func(js []byte) {
		ln := &Line{}
		if err := json.Unmarshal(js, ln); err != nil {
			machinery("bad line: " + err.Error())
		}
		if atomic.LoadInt64(&nDivergent) >= 120 {
			// enough evidence: every further divergent segmentation costs its full patience; the rest is not executed
			atomic.AddInt64(&rep.N, 1)
			atomic.AddInt64(&skippedAfterDivs, 1)
			return
		}
		res := runScenario(ln, js, time.Duration(*softMs)*time.Millisecond)
		if !res.OK {
			atomic.AddInt64(&nDivergent, 1)
		}
		atomic.AddInt64(&rep.N, 1)
		atomic.AddInt64(&bytesSent, int64(res.N))
		atomic.AddInt64(&msgsSent, int64(res.Chunks))
		if res.Chunks > 1 {
			atomic.AddInt64(&rep.NonTriv, 1)
		}
		if res.Strict {
			atomic.AddInt64(&strictN, 1)
		}
		if ln.Text > 0 {
			atomic.AddInt64(&textN, 1)
		}
		if res.DropSent {
			atomic.AddInt64(&predicted, 1)
			if res.OK && res.Strict {
				atomic.AddInt64(&predictedOKStrict, 1)
				if ln.Text == 0 {
					atomic.AddInt64(&predictedOKStrictBin, 1)
				}
				mu.Lock()
				if len(mispred) < 5 && len(js) < 600 && (ln.Text == 0 || len(mispred) < 2) {
					mispred = append(mispred, json.RawMessage(append([]byte(nil), js...)))
				}
				mu.Unlock()
			} else if res.OK {
				atomic.AddInt64(&predictedOKTolerant, 1)
			}
		}
		mu.Lock()
		perFam[ln.Stream+"/"+ln.Fam]++
		if !res.OK {
			divs = append(divs, res)
		}
		mu.Unlock()
		if res.OK && len(js) < 400 {
			rep.Sample(js, 3)
		}
	})
	if err != nil {
		machinery("reading TLC output: " + err.Error())
	}

	// confirmation: the smallest scenarios of every signature, alone, patiently
	sort.SliceStable(divs, func(i, j int) bool {
		a, b := divs[i], divs[j]
		if a.N != b.N {
			return a.N < b.N
		}
		if a.Chunks != b.Chunks {
			return a.Chunks < b.Chunks
		}
		return a.ln.Drop < b.ln.Drop
	})
	perSig := map[string]int{}
	bySig := map[string]int64{}
	var unconfirmed int64
	var cwg sync.WaitGroup
	sem := make(chan struct{}, 4)
	type conf struct {
		d, again *Result
	}
	var confs []*conf
	for _, d := range divs {
		bySig[d.Sig]++
		if perSig[d.Sig] >= *confirmN {
			continue
		}
		perSig[d.Sig]++
		cf := &conf{d: d}
		confs = append(confs, cf)
		cwg.Add(1)
		go func() {
			defer cwg.Done()
			sem <- struct{}{}
			defer func() { <-sem }()
			cf.again = runScenario(cf.d.ln, cf.d.line, time.Duration(*patMs)*time.Millisecond)
		}()
	}
	cwg.Wait()
	for _, cf := range confs { // smallest first
		d, again := cf.d, cf.again
		if again.OK || again.Sig != d.Sig {
			unconfirmed++
			rep.Div("UNCONFIRMED:"+d.Sig, "a divergence of the bulk run did not repeat when the scenario ran again: "+d.Kind+": "+d.Detail, d.line,
				map[string]interface{}{"bulk": d, "alone": again})
			continue
		}
		again.Confirmed = true
		what := fmt.Sprintf("stream %s (%d bytes) sent as %d binary messages %s (family %s): %s; demanded %s, observed %s", d.ln.Stream, again.N,
			again.Chunks, segText(d.ln.Seg), d.ln.Fam, again.Detail, again.Demanded, again.Observed)
		rep.Div(d.Sig, what, d.line, again)
	}
	stop()
	rep.Summary(map[string]interface{}{"skipped_after_divergences": atomic.LoadInt64(&skippedAfterDivs), "by_signature": bySig, "per_family": perFam, "predicted_drop": predicted,
		"predicted_drop_but_conformant_strict": predictedOKStrict, "predicted_drop_but_conformant_strict_binary_only": predictedOKStrictBin, "predicted_drop_but_conformant_tolerant": predictedOKTolerant,
		"strict": strictN, "text": textN, "bytes": bytesSent, "messages": msgsSent, "unconfirmed": unconfirmed,
		"diverging_scenarios": len(divs), "twin_anomalies": anomalies, "intrinsic_reference": intrinsicRef, "predicted_drop_but_conformant_samples": mispred})
}
