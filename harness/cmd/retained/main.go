// retained replays every transition of the Retained model (TLC output on stdin) into the real retained
// store (retained/trie) and compares the projection (GetRetainedMessage for every name of the universe,
// GetMatchedMessages for every filter of the pack, Iterate) with what the specification predicts.
// Oracle = the specification: the Match relation is printed once by TLC, the expected sets are joins of
// that table with the abstract state carried by each transition.
package main

import (
	"encoding/json"
	"flag"
	"fmt"
	"os"
	"sort"
	"strconv"
	"sync/atomic"

	"github.com/DrmagicE/gmqtt"
	"github.com/DrmagicE/gmqtt/retained"
	"github.com/DrmagicE/gmqtt/retained/trie"

	"verifharness/tc"
)

type Msg struct {
	Tag string `json:"tag"`
	Qos int    `json:"qos"`
}

type Op struct {
	Op string `json:"op"`
	T  string `json:"t"`
	M  *Msg   `json:"m"`
}

type Kept struct {
	T   string `json:"t"`
	Tag string `json:"tag"`
	Qos int    `json:"qos"`
}

type Trans struct {
	Pre []Op   `json:"pre"`
	Op  Op     `json:"op"`
	Ret []Kept `json:"ret"`
}

type Meta struct {
	Filters []string `json:"filters"`
	Topics  []string `json:"topics"`
}

type MatchLine struct {
	Match []struct {
		F string `json:"f"`
		T string `json:"t"`
	} `json:"match"`
}

var (
	meta    Meta
	match   = map[[2]string]bool{} // (filter, topic)
	haveTab bool
	rep     = tc.NewReporter()
)

func newStore() retained.Store { return trie.NewStore() }

func key(topic, tag string, qos int) string {
	return topic + "|" + tag + "|q" + strconv.Itoa(qos)
}

func msgKey(m *gmqtt.Message) string {
	if m == nil {
		return "<nil message>"
	}
	return key(m.Topic, string(m.Payload), int(m.QoS))
}

func apply(st retained.Store, op Op) (err error) {
	defer func() {
		if r := recover(); r != nil {
			err = fmt.Errorf("panic: %v", r)
		}
	}()
	switch op.Op {
	case "add":
		st.AddOrReplace(&gmqtt.Message{Topic: op.T, Payload: []byte(op.M.Tag), QoS: uint8(op.M.Qos), Retained: true})
	case "rm":
		st.Remove(op.T)
	case "clear":
		st.ClearAll()
	default:
		return fmt.Errorf("unknown op %q", op.Op)
	}
	return nil
}

func guarded(f func() []string) (got []string, err error) {
	defer func() {
		if r := recover(); r != nil {
			err = fmt.Errorf("panic: %v", r)
		}
	}()
	got = f()
	if len(got) > 1 {
		sort.Strings(got)
	}
	return
}

func same(a, b []string) bool {
	if len(a) != len(b) {
		return false
	}
	for i := range a {
		if a[i] != b[i] {
			return false
		}
	}
	return true
}

func one(js []byte) {
	var t Trans
	if err := json.Unmarshal(js, &t); err != nil {
		rep.Div("harness", "cannot parse transition: "+err.Error(), js, nil)
		return
	}
	atomic.AddInt64(&rep.N, 1)
	st := newStore()
	for _, op := range t.Pre {
		if err := apply(st, op); err != nil {
			rep.Div("retained:pre-op-error", fmt.Sprintf("%s during prefix: %v", op.Op, err), js, nil)
			return
		}
	}
	if err := apply(st, t.Op); err != nil {
		rep.Div("retained:op-error:"+t.Op.Op, fmt.Sprintf("%v", err), js, nil)
		return
	}
	if len(t.Ret) > 0 || len(t.Pre) > 0 {
		atomic.AddInt64(&rep.NonTriv, 1)
	}
	verify(st, &t, js)
	rep.Sample(js, 3)
}

func verify(st retained.Store, t *Trans, js []byte) {
	check := func(sig, what string, want []string, f func() []string) {
		got, err := guarded(f)
		if len(want) > 1 {
			sort.Strings(want)
		}
		if err != nil {
			rep.Div("retained:query-panic:"+sig, fmt.Sprintf("%s: %v", what, err), js, nil)
			return
		}
		if !same(got, want) {
			rep.Div("retained:"+sig, fmt.Sprintf("after %s(%s): %s returned %v, specification says %v", t.Op.Op, t.Op.T, what, got, want), js, nil)
		}
	}
	// (1) GetRetainedMessage for every name of the universe
	for _, topic := range meta.Topics {
		topic := topic
		var want []string
		for _, k := range t.Ret {
			if k.T == topic {
				want = append(want, key(k.T, k.Tag, k.Qos))
			}
		}
		check("get", fmt.Sprintf("GetRetainedMessage(%q)", topic), want, func() []string {
			if m := st.GetRetainedMessage(topic); m != nil {
				return []string{msgKey(m)}
			}
			return nil
		})
	}
	// (2) GetMatchedMessages for every filter of the pack
	for _, f := range meta.Filters {
		f := f
		var want []string
		for _, k := range t.Ret {
			if match[[2]string{f, k.T}] {
				want = append(want, key(k.T, k.Tag, k.Qos))
			}
		}
		check("matched", fmt.Sprintf("GetMatchedMessages(%q)", f), want, func() []string {
			var got []string
			for _, m := range st.GetMatchedMessages(f) {
				got = append(got, msgKey(m))
			}
			return got
		})
	}
	// (3) Iterate
	var want []string
	for _, k := range t.Ret {
		want = append(want, key(k.T, k.Tag, k.Qos))
	}
	check("iterate", "Iterate", want, func() []string {
		var got []string
		st.Iterate(func(m *gmqtt.Message) bool {
			got = append(got, msgKey(m))
			return true
		})
		return got
	})
}

func main() {
	metaPath := flag.String("meta", "", "pack description (filters, topics)")
	workers := flag.Int("workers", 0, "")
	raw := flag.Bool("raw", false, "stdin lines are plain JSON (replay) instead of TLA+ string literals")
	flag.Parse()
	b, err := os.ReadFile(*metaPath)
	if err != nil {
		fmt.Fprintln(os.Stderr, err)
		os.Exit(2)
	}
	if err := json.Unmarshal(b, &meta); err != nil {
		fmt.Fprintln(os.Stderr, err)
		os.Exit(2)
	}
	head := func(js []byte) bool {
		if len(js) > 9 && string(js[:9]) == `{"match":` {
			var m MatchLine
			if err := json.Unmarshal(js, &m); err != nil {
				fmt.Fprintln(os.Stderr, "bad match table", err)
				os.Exit(2)
			}
			for _, p := range m.Match {
				match[[2]string{p.F, p.T}] = true
			}
			haveTab = true
			return true
		}
		if !haveTab {
			fmt.Fprintln(os.Stderr, "transition before match table")
			os.Exit(2)
		}
		return false
	}
	if err := tc.Each(os.Stdin, *workers, *raw, head, one); err != nil {
		fmt.Fprintln(os.Stderr, err)
		os.Exit(2)
	}
	rep.Summary(map[string]interface{}{"match_pairs": len(match)})
}
