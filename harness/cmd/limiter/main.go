// limiter replays every transition of the Limiter model (TLC output on stdin) into the real packet-id
// limiter (server.packetIDLimiter through the verif export) and compares answer, projection and probe with
// what the specification predicts.
//
// Two bindings of the model's id space to the real one (flag -mode):
//
//	plain     model MaxId = 65535 = real MaxPacketID, ids identical, real limit = model limit; the model is
//	          bounded by free <= FreeBound, so wrap-around is out of reach.
//	blockers  model MaxId = M small.  The real limiter is built with limit' = limit + (65535-M) and every id
//	          of M+1..65535 is marked used before the history starts (MarkUsed on unused ids, the broker's own
//	          use of it).  The ids 1..M are then the only free ones, ids are identical, the real count is the
//	          model's + (65535-M), and the real scan really runs over 65535 -> 1.  Why this is sound: it is a
//	          history of the real object through its API, and what the specification (MaxId = 65535) demands
//	          for the rest of that history is exactly what the specification with MaxId = M demands: the cyclic
//	          scan skips ids in use, so "next id >= free not in use" over 1..65535 with M+1..65535 in use is
//	          "next id >= free' not in use" over 1..M, where free' = free for free <= M and 1 otherwise; the
//	          window test |used| < limit is invariant under adding 65535-M to both sides.
//
// Per transition, on one fresh object: prefix (nothing checked), the operation (a Poll answer is compared
// with the scan model's ids; a disagreement is classified by Limiter!PollFresh into "not fresh" = the
// property is broken, or "differs from the scan model" = other but fresh ids), count and would-block flag
// against the post-state, the probe Poll(ProbeMax) if the specification says it is enabled, and finally a
// release scan (Release(id) for every id, watching the count) that reads the in-use set, which must be the
// specification's `used` plus what the probe handed out.
//
// Poll is never called when the model says it is not enabled; VerifWouldBlock cross-checks that on the real
// object before every Poll, and a watchdog reports a call that does not come back.
package main

import (
	"encoding/json"
	"flag"
	"fmt"
	"os"
	"sort"
	"sync"
	"sync/atomic"
	"time"

	"github.com/DrmagicE/gmqtt/pkg/packets"
	"github.com/DrmagicE/gmqtt/server"

	"verifharness/tc"
)

type Op struct {
	Op  string `json:"op"`
	Max int    `json:"max"`
	Id  int    `json:"id"`
	Ids []int  `json:"ids"`
}

type Trans struct {
	Limit   int   `json:"limit"`
	Pre     []Op  `json:"pre"`
	Op      Op    `json:"op"`
	Upre    []int `json:"upre"`
	Used    []int `json:"used"`
	Blocked bool  `json:"blocked"`
	Exit    bool  `json:"exit"`
	Probe   struct {
		En  bool  `json:"en"`
		Ids []int `json:"ids"`
	} `json:"probe"`
}

const realMax = 65535

var (
	rep      = tc.NewReporter()
	mode     string
	maxID    int // model MaxId
	scanMax  int // ids 0..scanMax are probed by the release scan
	probeMax int
	base     int // real count - model count
)

// ---- watchdog: one slot per in-flight line
type slot struct {
	mu    sync.Mutex
	line  []byte
	what  string
	since time.Time
}

var slots sync.Map // *slot -> struct{}

func watchdog(limit time.Duration) {
	for {
		time.Sleep(500 * time.Millisecond)
		slots.Range(func(k, _ interface{}) bool {
			s := k.(*slot)
			s.mu.Lock()
			stuck := s.line != nil && time.Since(s.since) > limit
			line, what := s.line, s.what
			s.mu.Unlock()
			if stuck {
				rep.Div("limiter:call-does-not-return", fmt.Sprintf("%s: the last call did not return within %v although the specification says it is enabled (VerifWouldBlock was false)", what, limit), line, nil)
				rep.Summary(map[string]interface{}{"aborted": true})
				os.Exit(0)
			}
			return true
		})
	}
}

var slotPool = sync.Pool{New: func() interface{} { s := &slot{}; slots.Store(s, struct{}{}); return s }}

// ---- the real object
type real struct {
	l *server.VerifLimiter
}

func build(limit int) *real {
	if mode == "plain" {
		return &real{server.NewVerifLimiter(uint16(limit))}
	}
	// blockers: every id of M+1..65535 is marked used (MarkUsed on unused ids, window has room: limit+base)
	l := server.NewVerifLimiter(uint16(limit + base))
	for id := maxID + 1; id <= realMax; id++ {
		l.MarkUsed(packets.PacketID(id))
	}
	return &real{l}
}

func (r *real) cnt() int { return int(r.l.Used()) - base }

type blockedErr struct{}

func (blockedErr) Error() string { return "VerifWouldBlock() = true" }

// apply runs one operation; for poll it returns the ids
func (r *real) apply(op Op) (ids []int, err error) {
	defer func() {
		if rc := recover(); rc != nil {
			err = fmt.Errorf("panic: %v", rc)
		}
	}()
	switch op.Op {
	case "poll":
		if r.l.VerifWouldBlock() {
			return nil, blockedErr{}
		}
		for _, id := range r.l.Poll(uint16(op.Max)) {
			ids = append(ids, int(id))
		}
	case "release":
		r.l.Release(packets.PacketID(op.Id))
	case "batch":
		b := make([]packets.PacketID, 0, len(op.Ids))
		for _, id := range op.Ids {
			b = append(b, packets.PacketID(id))
		}
		r.l.BatchRelease(b)
	case "mark":
		r.l.MarkUsed(packets.PacketID(op.Id))
	case "close":
		r.l.Close()
	default:
		return nil, fmt.Errorf("unknown op %q", op.Op)
	}
	return ids, nil
}

func sameSeq(a, b []int) bool {
	if len(a) != len(b) {
		return false
	}
	for i := range a {
		if a[i] != b[i] {
			return false
		}
	}
	return true
}

func opStr(op Op) string {
	switch op.Op {
	case "poll":
		return fmt.Sprintf("Poll(%d)", op.Max)
	case "release":
		return fmt.Sprintf("Release(%d)", op.Id)
	case "batch":
		return fmt.Sprintf("BatchRelease(%v)", op.Ids)
	case "mark":
		return fmt.Sprintf("MarkUsed(%d)", op.Id)
	}
	return "Close()"
}

func history(t *Trans) string {
	s := fmt.Sprintf("limit %d:", t.Limit)
	for _, op := range t.Pre {
		s += " " + opStr(op)
		if op.Op == "poll" {
			s += fmt.Sprintf("=%v", op.Ids)
		}
	}
	return s + " | " + opStr(t.Op)
}

// prefix builds a fresh object and applies the prefix (checking nothing but "does not block / panic")
func prefix(t *Trans, js []byte) *real {
	r := build(t.Limit)
	for _, op := range t.Pre {
		if _, err := r.apply(op); err != nil {
			if _, b := err.(blockedErr); b {
				rep.Div("limiter:would-block:pre", fmt.Sprintf("%s: prefix %s would block, the specification says it is enabled", history(t), opStr(op)), js, nil)
			} else {
				rep.Div("limiter:pre-op-error", fmt.Sprintf("%s: %s during prefix: %v", history(t), opStr(op), err), js, nil)
			}
			return nil
		}
	}
	return r
}

func one(js []byte) {
	var t Trans
	if err := json.Unmarshal(js, &t); err != nil || t.Limit < 1 {
		rep.Div("harness", fmt.Sprintf("cannot parse transition: %v", err), js, nil)
		return
	}
	atomic.AddInt64(&rep.N, 1)
	sl := slotPool.Get().(*slot)
	sl.mu.Lock()
	sl.line, sl.what, sl.since = js, history(&t), time.Now()
	sl.mu.Unlock()
	defer func() {
		sl.mu.Lock()
		sl.line = nil
		sl.mu.Unlock()
		slotPool.Put(sl)
	}()

	// ---------------- operation, answer, count, blocked
	a := prefix(&t, js)
	if a == nil {
		return
	}
	ids, err := a.apply(t.Op)
	if err != nil {
		if _, b := err.(blockedErr); b {
			rep.Div("limiter:would-block:"+t.Op.Op, fmt.Sprintf("%s would block, the specification says it is enabled (%d of %d ids in use)", history(&t), len(t.Upre), t.Limit), js, nil)
		} else {
			rep.Div("limiter:op-error:"+t.Op.Op, fmt.Sprintf("%s: %v", history(&t), err), js, nil)
		}
		return
	}
	if len(t.Pre) > 0 {
		atomic.AddInt64(&rep.NonTriv, 1)
	}
	if t.Op.Op == "poll" && !sameSeq(ids, t.Op.Ids) {
		// classify by the property (Limiter!PollFresh): which ids are handed out is free, that they are fresh is not
		inUse := map[int]bool{}
		for _, u := range t.Upre {
			inUse[u] = true
		}
		seen := map[int]bool{}
		var viol []string
		for _, id := range ids {
			switch {
			case id == 0:
				viol = append(viol, "id 0")
			case inUse[id]:
				viol = append(viol, fmt.Sprintf("id %d is in use", id))
			case seen[id]:
				viol = append(viol, fmt.Sprintf("id %d twice", id))
			case mode == "blockers" && id > maxID:
				viol = append(viol, fmt.Sprintf("id %d is in use (marked before the history)", id))
			}
			seen[id] = true
		}
		if len(ids) != len(t.Op.Ids) {
			viol = append(viol, fmt.Sprintf("%d ids instead of %d", len(ids), len(t.Op.Ids)))
		}
		if len(viol) > 0 {
			rep.Div("limiter:poll-not-fresh", fmt.Sprintf("%s returned %v with %v in use: %v (specification: %v)", history(&t), ids, t.Upre, viol, t.Op.Ids), js, nil)
		} else {
			rep.Div("limiter:poll-ids-differ-from-scan-model", fmt.Sprintf("%s returned %v, the cyclic-scan model says %v (fresh ids, not a violation of the property by itself)", history(&t), ids, t.Op.Ids), js, nil)
		}
	}
	if got := a.cnt(); got != len(t.Used) {
		rep.Div("limiter:count:"+t.Op.Op, fmt.Sprintf("%s: %d ids counted as in use, specification says %d %v", history(&t), got, len(t.Used), t.Used), js, nil)
	}
	if got := a.l.VerifWouldBlock(); got != t.Blocked {
		rep.Div("limiter:blocked:"+t.Op.Op, fmt.Sprintf("%s: a Poll would block = %v, specification says %v (in use %v, limit %d, closed %v)", history(&t), got, t.Blocked, t.Used, t.Limit, t.Exit), js, nil)
	}
	// probe Poll from the post-state (reveals `free` and the scan); never issued when the specification says it would block
	want := append([]int(nil), t.Used...)
	scan := true
	if t.Probe.En {
		sl.mu.Lock()
		sl.what = fmt.Sprintf("%s, then the probe Poll(%d)", history(&t), probeMax)
		sl.mu.Unlock()
		pids, err := a.apply(Op{Op: "poll", Max: probeMax})
		if err != nil {
			if _, bl := err.(blockedErr); !bl {
				rep.Div("limiter:op-error:probe", fmt.Sprintf("%s, then Poll(%d): %v", history(&t), probeMax, err), js, nil)
			} // blocked: reported as limiter:blocked above
			return
		}
		rep.Count("probe_polls", 1)
		if !sameSeq(pids, t.Probe.Ids) {
			inUse := map[int]bool{}
			for _, u := range t.Used {
				inUse[u] = true
			}
			fresh := len(pids) == len(t.Probe.Ids)
			seen := map[int]bool{}
			for _, id := range pids {
				if id == 0 || inUse[id] || seen[id] || (mode == "blockers" && id > maxID) {
					fresh = false
				}
				seen[id] = true
			}
			sig := "limiter:probe-not-fresh:"
			if fresh {
				sig = "limiter:probe-ids-differ-from-scan-model:"
			}
			rep.Div(sig+t.Op.Op, fmt.Sprintf("%s, then Poll(%d) returned %v with %v in use, specification says %v", history(&t), probeMax, pids, t.Used, t.Probe.Ids), js, nil)
			scan = fresh // the in-use set is only predictable if the probe handed out fresh ids
		}
		want = append(want, pids...)
	} else {
		rep.Count("probe_skipped_blocked", 1)
	}
	// release scan: which ids are in use?  Release(id) lowers the count iff id was in use.
	// expected: the specification's `used` plus what the probe just handed out
	if scan {
		var obs []int
		for id := 0; id <= scanMax; id++ {
			before := a.cnt()
			a.l.Release(packets.PacketID(id))
			if after := a.cnt(); after < before {
				obs = append(obs, id)
			} else if after > before {
				rep.Div("limiter:release-raises-count", fmt.Sprintf("%s, then Release(%d) raised the count %d -> %d", history(&t), id, before, after), js, nil)
			}
		}
		sort.Ints(want)
		if !sameSeq(obs, want) {
			rep.Div("limiter:used-set:"+t.Op.Op, fmt.Sprintf("%s (then probe Poll(%d)): ids in use, observed by releasing each id: %v, specification says %v", history(&t), probeMax, obs, want), js, nil)
		}
		if got := a.cnt(); got != 0 {
			rep.Div("limiter:count-after-release-all", fmt.Sprintf("%s, then every id of 0..%d released: count is %d, not 0", history(&t), scanMax, got), js, nil)
		}
	}
	rep.Sample(js, 3)
}

func main() {
	workers := flag.Int("workers", 0, "")
	raw := flag.Bool("raw", false, "stdin lines are plain JSON (replay) instead of TLA+ string literals")
	flag.StringVar(&mode, "mode", "blockers", "plain | blockers")
	flag.IntVar(&maxID, "maxid", 4, "MaxId of the model")
	flag.IntVar(&scanMax, "scan", 4, "release scan over ids 0..scan")
	flag.IntVar(&probeMax, "probe", 2, "max of the probe Poll")
	wd := flag.Duration("watchdog", 20*time.Second, "")
	flag.Parse()
	switch mode {
	case "plain":
		if maxID != realMax {
			fmt.Fprintln(os.Stderr, "plain mode needs -maxid 65535")
			os.Exit(2)
		}
	case "blockers":
		if maxID < 1 || maxID >= realMax {
			fmt.Fprintln(os.Stderr, "bad -maxid")
			os.Exit(2)
		}
		base = realMax - maxID
	default:
		fmt.Fprintln(os.Stderr, "unknown mode", mode)
		os.Exit(2)
	}
	go watchdog(*wd)
	if err := tc.Each(os.Stdin, *workers, *raw, nil, one); err != nil {
		fmt.Fprintln(os.Stderr, err)
		os.Exit(2)
	}
	rep.Summary(map[string]interface{}{"mode": mode, "maxid": maxID, "aborted": false})
}
