// durable is the driver of C09 (durable redis sessions survive a crash between any two storage commands).
//
//	durable record  -in histories.ndjson -out journals.ndjson [-par 8]
//	    runs seeded client histories against a real in-process broker with persistence.type = redis on the RESP
//	    fake (harness/resp).  Every client request is preceded by a `try` marker in the fake's journal, every
//	    acknowledgement READ by a client is followed by an `ack` marker (later than the real moment, hence never
//	    demanding too much).  A history may contain `crash` steps (the store stops accepting commands - optionally
//	    after n more write commands of the step in progress -, the broker is stopped, a new broker is started on a
//	    store rebuilt from the journal): the journals of the lives are concatenated.  Output: one line per history
//	    with the journal (raw commands, base64) and its abstraction (one event per entry) for spec/TraceDurable.tla.
//
//	durable restart -journals journals.ndjson -plan plan.ndjson -out results.ndjson [-par 16]
//	    fault enumeration: for every plan line {h, k, req} a fresh fake is loaded with the first k journal entries
//	    of history h, a NEW broker is started on it (start-up must succeed) and what it serves is compared with
//	    `req` - the required state the specification computed from the markers of the prefix: sessions present,
//	    subscriptions (SubscriptionService.Iterate) within the allowed values, every persistent client reconnects
//	    with Clean Start 0 (Session Present 1) and must be sent the required QoS>0 messages, a re-sent QoS2
//	    PUBLISH whose id was awaiting PUBREL must not be forwarded to an independent subscriber.
//
// The expected values never come from a Go re-implementation of the semantics: `req` is printed by TLC.
package main

import (
	"bufio"
	"context"
	"encoding/base64"
	"encoding/binary"
	"encoding/json"
	"flag"
	"fmt"
	"net"
	"os"
	"path/filepath"
	"sort"
	"strconv"
	"strings"
	"sync"
	"time"

	"github.com/DrmagicE/gmqtt"
	"github.com/DrmagicE/gmqtt/config"
	_ "github.com/DrmagicE/gmqtt/persistence"
	"github.com/DrmagicE/gmqtt/persistence/subscription"
	"github.com/DrmagicE/gmqtt/server"
	_ "github.com/DrmagicE/gmqtt/topicalias/fifo"

	"verifharness/inproc"
	mw "verifharness/mqttwire"
	"verifharness/resp"
)

// ------------------------------------------------------------------------------------------------ input

type ClientDef struct {
	Ver int   `json:"ver"`
	Exp int64 `json:"exp"` // v5 Session Expiry Interval of CONNECT, -1 = absent
}

type Opts struct {
	QoS int  `json:"qos"`
	NL  bool `json:"nl"`
	RAP bool `json:"rap"`
	RH  int  `json:"rh"`
	SID int  `json:"sid"`
}

var noSub = Opts{QoS: -1}

type Step struct {
	Op    string `json:"op"` // connect subscribe unsubscribe publish pubrel recv cack close crash
	C     string `json:"c"`
	Clean bool   `json:"clean"`
	F     string `json:"f"`
	Fam   int    `json:"fam"`
	O     Opts   `json:"o"`
	Topic string `json:"topic"`
	M     string `json:"m"`
	QoS   int    `json:"qos"`
	Pid   int    `json:"pid"`
	Dup   bool   `json:"dup"`
	T     string `json:"t"`   // cack: puback pubrec pubcomp
	How   string `json:"how"` // close: disconnect abort
	Cut   *int   `json:"cut"` // the store dies after this many more write commands; the step is not awaited
}

type History struct {
	ID      string               `json:"id"`
	Clients map[string]ClientDef `json:"clients"`
	Steps   []Step               `json:"steps"`
}

// ------------------------------------------------------------------------------------------------ journal

type Entry struct {
	K    int                    `json:"k"`
	Args []string               `json:"args,omitempty"` // base64 of the raw arguments (commands only)
	DB   int                    `json:"db,omitempty"`
	Err  string                 `json:"err,omitempty"`
	Ev   map[string]interface{} `json:"ev"`
}

type Recorded struct {
	ID      string               `json:"id"`
	Clients map[string]ClientDef `json:"clients"`
	Fatal   string               `json:"fatal,omitempty"`
	Notes   []string             `json:"notes,omitempty"`
	Entries []Entry              `json:"entries"`
}

func (e *Entry) cmd() resp.Cmd {
	c := resp.Cmd{Seq: e.K, DB: e.DB, Err: e.Err}
	for _, a := range e.Args {
		b, _ := base64.StdEncoding.DecodeString(a)
		c.Args = append(c.Args, string(b))
	}
	return c
}

// ---- independent decoders of the stored values (persistence/encoding: 2-byte length prefixed strings)

type rd struct {
	b   []byte
	bad bool
}

func (r *rd) n(k int) []byte {
	if r.bad || len(r.b) < k {
		r.bad = true
		return make([]byte, k)
	}
	x := r.b[:k]
	r.b = r.b[k:]
	return x
}
func (r *rd) str() string {
	l := binary.BigEndian.Uint16(r.n(2))
	if int(l) > len(r.b) {
		r.bad = true
		return ""
	}
	return string(r.n(int(l)))
}

// subscription value: share, filter, id(4), qos, nl, rap, rh
func decodeSub(v string) (full string, o Opts, ok bool) {
	r := &rd{b: []byte(v)}
	share, filter := r.str(), r.str()
	id := binary.BigEndian.Uint32(r.n(4))
	q := r.n(4)
	if r.bad || len(r.b) != 0 || q[1] > 1 || q[2] > 1 {
		return "", noSub, false
	}
	full = filter
	if share != "" {
		full = "$share/" + share + "/" + filter
	}
	return full, Opts{QoS: int(q[0]), NL: q[1] == 1, RAP: q[2] == 1, RH: int(q[3]), SID: int(id)}, true
}

type El struct {
	Kind string `json:"kind"`
	M    string `json:"m"`
	QoS  int    `json:"qos"`
	ID   int    `json:"id"`
}

// queue element: at(8) pad expiry(8) pad kind(1); publish: dup qos retained topic payload pid(2) props... ; pubrel: pid(2)
func decodeEl(v string) (El, bool) {
	r := &rd{b: []byte(v)}
	h := r.n(19)
	if r.bad {
		return El{}, false
	}
	switch h[18] {
	case 0:
		f := r.n(3)
		r.str()
		payload := r.str()
		pid := binary.BigEndian.Uint16(r.n(2))
		if r.bad {
			return El{}, false
		}
		return El{Kind: "pub", M: payload, QoS: int(f[1]), ID: int(pid)}, true
	case 1:
		pid := binary.BigEndian.Uint16(r.n(2))
		if r.bad {
			return El{}, false
		}
		return El{Kind: "rel", ID: int(pid)}, true
	}
	return El{}, false
}

// abstract maps one journal command to the uniform command record of spec/Durable.tla.
func abstract(c resp.Cmd) map[string]interface{} {
	ev := map[string]interface{}{"e": "cmd", "cmd": c.Args[0], "key": "", "c": "", "f": "", "o": noSub, "pid": 0, "idx": 0,
		"el": El{}, "exp": 0, "ok": c.Err == "" && c.DB == 0}
	bad := func() map[string]interface{} { ev["ok"] = false; return ev }
	if len(c.Args) < 2 {
		return bad()
	}
	i := strings.IndexByte(c.Args[1], ':')
	if i < 0 {
		ev["key"] = c.Args[1]
		return bad()
	}
	key, cid := c.Args[1][:i], c.Args[1][i+1:]
	ev["key"], ev["c"] = key, cid
	a := c.Args[2:]
	switch c.Args[0] + " " + key {
	case "DEL session", "DEL sub", "DEL queue", "DEL unack":
		if len(a) != 0 {
			return bad()
		}
	case "HSET session":
		m := map[string]string{}
		for j := 0; j+1 < len(a); j += 2 {
			m[a[j]] = a[j+1]
		}
		exp, err := strconv.ParseUint(m["expiry_interval"], 10, 32)
		_, e2 := strconv.ParseUint(m["connected_at"], 10, 32)
		_, e3 := strconv.ParseUint(m["will_delay_interval"], 10, 32)
		if len(a) != 10 || len(m) != 5 || err != nil || e2 != nil || e3 != nil || m["client_id"] != cid || m["will"] != "" {
			ev["exp"] = -1 // start-up could not read this session back as the session of <cid>
			return ev
		}
		ev["exp"] = int(exp)
	case "HSET sub":
		if len(a) != 2 {
			return bad()
		}
		full, o, ok := decodeSub(a[1])
		ev["f"] = a[0]
		if !ok || full != a[0] {
			o = Opts{QoS: 99} // undecodable value: start-up fails on it
		}
		ev["o"] = o
	case "HDEL sub":
		if len(a) != 1 {
			return bad()
		}
		ev["f"] = a[0]
	case "HSET unack":
		p, err := strconv.Atoi(a[0])
		if len(a) != 2 || err != nil || a[1] != "1" {
			return bad()
		}
		ev["pid"] = p
	case "HDEL unack":
		p, err := strconv.Atoi(a[0])
		if len(a) != 1 || err != nil {
			return bad()
		}
		ev["pid"] = p
	case "RPUSH queue":
		if len(a) != 1 {
			return bad()
		}
		el, ok := decodeEl(a[0])
		if !ok {
			return bad()
		}
		ev["el"] = el
	case "LSET queue":
		if len(a) != 2 {
			return bad()
		}
		idx, err := strconv.Atoi(a[0])
		el, ok := decodeEl(a[1])
		if err != nil || !ok {
			return bad()
		}
		ev["idx"], ev["el"] = idx, el
	case "LREM queue":
		if len(a) != 2 || a[0] != "1" {
			return bad()
		}
		el, ok := decodeEl(a[1])
		if !ok {
			return bad()
		}
		ev["el"] = el
	default:
		return bad()
	}
	return ev
}

// ------------------------------------------------------------------------------------------------ broker on a fake

func brokerConfig(addr string) config.Config {
	cfg := inproc.DefaultConfig()
	cfg.PluginOrder = nil
	cfg.Persistence.Type = config.PersistenceTypeRedis
	cfg.Persistence.Redis.Addr = addr
	return cfg
}

const (
	tAck  = 5 * time.Second
	tDial = 3 * time.Second
)

// fakeFrom builds the store of a journal prefix.  Tens of thousands of restarts churn through loopback ports (the fake
// listens on TCP); when the range is momentarily used up (this machine is shared) the attempt is repeated.
func fakeFrom(cmds []resp.Cmd) (*resp.Server, error) {
	var err error
	for i := 0; i < 100; i++ {
		var f *resp.Server
		if f, err = resp.NewServerFromJournal(cmds); err == nil {
			return f, nil
		}
		if !strings.Contains(err.Error(), "address already in use") {
			return nil, err
		}
		time.Sleep(200 * time.Millisecond)
	}
	return nil, err
}

// ubroker is a real broker serving MQTT on a unix socket (the restarts of the fault enumeration: no TCP ports for the
// MQTT side; same server.New / Init / Run as inproc.Start, no hooks needed).
type ubroker struct {
	srv  server.Server
	path string
	run  chan error
}

var sockDir string

func startUnix(cfg config.Config, name string) (*ubroker, error) {
	path := filepath.Join(sockDir, name+".sock")
	_ = os.Remove(path)
	ln, err := net.Listen("unix", path)
	if err != nil {
		return nil, fmt.Errorf("listen unix: %v", err)
	}
	srv := server.New(server.WithConfig(cfg), server.WithTCPListener(ln))
	if err := srv.Init(); err != nil {
		ln.Close()
		return nil, fmt.Errorf("broker init: %w", err)
	}
	b := &ubroker{srv: srv, path: path, run: make(chan error, 1)}
	go func() { b.run <- srv.Run() }()
	return b, nil
}

func (b *ubroker) stop(timeout time.Duration) error {
	ctx, cancel := context.WithTimeout(context.Background(), timeout)
	defer cancel()
	err := b.srv.Stop(ctx)
	_ = os.Remove(b.path)
	return err
}

// cli is a scripted client: synchronous, packets that are not waited for are kept in the inbox.
type cli struct {
	id    string
	def   ClientDef
	c     *mw.Client
	inbox []*mw.Packet
	npid  uint16
	pids  map[string]uint16 // message -> packet id of its latest delivery on this connection
}

func (a *cli) expect(timeout time.Duration, pred func(*mw.Packet) bool) (*mw.Packet, error) {
	for i, p := range a.inbox {
		if pred(p) {
			a.inbox = append(a.inbox[:i], a.inbox[i+1:]...)
			return p, nil
		}
	}
	deadline := time.Now().Add(timeout)
	for {
		left := time.Until(deadline)
		if left <= 0 {
			return nil, fmt.Errorf("timeout")
		}
		p, err := a.c.Recv(left)
		if err != nil {
			return nil, err
		}
		if pred(p) {
			return p, nil
		}
		a.inbox = append(a.inbox, p)
	}
}

func (a *cli) nextPid() uint16 {
	a.npid++
	if a.npid == 0 || a.npid >= 60000 {
		a.npid = 1
	}
	return 60000 - a.npid // the client's own identifiers: far away from the ids the generator uses for publishes
}

func dialConnect(addr, id string, def ClientDef, clean bool) (*cli, *mw.Packet, error) {
	network := "tcp"
	if strings.HasPrefix(addr, "/") {
		network = "unix"
	}
	conn, err := net.DialTimeout(network, addr, tDial)
	if err != nil {
		return nil, nil, err
	}
	a := &cli{id: id, def: def, c: mw.NewClient(conn, byte(def.Ver)), pids: map[string]uint16{}}
	p := mw.Connect(byte(def.Ver), id, clean, 0)
	if def.Ver == 5 && def.Exp >= 0 {
		e := uint32(def.Exp)
		p.Props = &mw.Props{SessionExpiry: &e}
	}
	return a, p, nil
}

// ------------------------------------------------------------------------------------------------ record

type life struct {
	fake *resp.Server
	b    *inproc.Broker
}

type recorder struct {
	h       *History
	out     *Recorded
	l       *life
	cl      map[string]*cli
	crashed bool
}

func (r *recorder) mark(ev map[string]interface{}) {
	b, _ := json.Marshal(ev)
	r.l.fake.Mark(string(b))
}

func ackEv(op, c string) map[string]interface{} {
	return map[string]interface{}{"e": "ack", "op": op, "c": c, "sp": false, "f": "", "m": "", "pid": 0}
}

// harvest appends the journal of the current life to the combined journal.
func (r *recorder) harvest() {
	for _, c := range r.l.fake.Journal() {
		e := Entry{K: len(r.out.Entries) + 1, DB: c.DB, Err: c.Err}
		if c.Args[0] == "#MARK" {
			ev := map[string]interface{}{}
			if err := json.Unmarshal([]byte(c.Args[1]), &ev); err != nil {
				ev = map[string]interface{}{"e": "note", "text": c.Args[1]}
			}
			e.Ev = ev
		} else {
			for _, a := range c.Args {
				e.Args = append(e.Args, base64.StdEncoding.EncodeToString([]byte(a)))
			}
			e.Ev = abstract(c)
		}
		e.Ev["k"] = e.K
		r.out.Entries = append(r.out.Entries, e)
	}
}

func (r *recorder) cmds() []resp.Cmd {
	var cs []resp.Cmd
	for i := range r.out.Entries {
		if len(r.out.Entries[i].Args) > 0 {
			cs = append(cs, r.out.Entries[i].cmd())
		}
	}
	return cs
}

func (r *recorder) startLife() error {
	var fake *resp.Server
	var err error
	if len(r.out.Entries) == 0 {
		fake, err = resp.NewServer()
	} else {
		fake, err = fakeFrom(r.cmds())
	}
	if err != nil {
		return err
	}
	b, err := inproc.Start(inproc.Options{Cfg: brokerConfig(fake.Addr())})
	if err != nil {
		fake.Close()
		return fmt.Errorf("start-up on the store of the previous life failed: %v", err)
	}
	r.l = &life{fake: fake, b: b}
	return nil
}

// crash: the store stops accepting commands, every connection is dropped, the broker is stopped (whatever it tries to
// write is refused), a new life starts on the store as the journal left it.
func (r *recorder) crash() error {
	r.l.fake.FailAfter(0)
	r.mark(map[string]interface{}{"e": "crash"})
	for _, a := range r.cl {
		a.c.Close()
	}
	r.cl = map[string]*cli{}
	_ = r.l.b.Stop(5 * time.Second)
	r.harvest()
	r.l.fake.Close()
	if err := r.startLife(); err != nil {
		return err
	}
	r.mark(map[string]interface{}{"e": "recover"})
	return nil
}

func (r *recorder) waitGone(id string) {
	deadline := time.Now().Add(tAck)
	for time.Now().Before(deadline) {
		if r.l.b.Srv.ClientService().GetClient(id) == nil {
			return
		}
		time.Sleep(time.Millisecond)
	}
	r.out.Notes = append(r.out.Notes, "client "+id+" still registered after close")
}

func (r *recorder) step(s *Step) error {
	if s.Op == "crash" {
		return r.crash()
	}
	a := r.cl[s.C]
	if a == nil && s.Op != "connect" {
		return fmt.Errorf("step %s: client %s is not connected", s.Op, s.C)
	}
	cut := s.Cut != nil
	// arm: the store dies after *s.Cut more write commands
	arm := func() {
		if cut {
			r.l.fake.FailAfter(*s.Cut)
		}
	}
	// a cut step is not awaited: wait until the store has died (or the broker has had ample time), then crash
	finishCut := func() error {
		deadline := time.Now().Add(400 * time.Millisecond)
		for time.Now().Before(deadline) && !r.l.fake.Crashed() {
			time.Sleep(time.Millisecond)
		}
		if !r.l.fake.Crashed() {
			time.Sleep(50 * time.Millisecond) // the operation needed fewer commands: it has long finished
		}
		return r.crash()
	}
	switch s.Op {
	case "connect":
		if a != nil {
			return fmt.Errorf("connect: %s is already connected", s.C)
		}
		def := r.h.Clients[s.C]
		na, p, err := dialConnect(r.l.b.Addr, s.C, def, s.Clean)
		if err != nil {
			return err
		}
		r.mark(map[string]interface{}{"e": "try", "op": "connect", "c": s.C, "clean": s.Clean, "ver": def.Ver, "exp": def.Exp})
		arm()
		if err := na.c.Send(p); err != nil {
			return err
		}
		r.cl[s.C] = na
		if cut {
			return finishCut()
		}
		ack, err := na.expect(tAck, func(p *mw.Packet) bool { return p.Type == mw.CONNACK })
		if err != nil || ack.Code != 0 {
			return fmt.Errorf("connect %s: no successful CONNACK (%v)", s.C, err)
		}
		ev := ackEv("connack", s.C)
		ev["sp"] = ack.SessionPresent
		r.mark(ev)
	case "subscribe":
		pid := a.nextPid()
		p := mw.Subscribe(pid, mw.SubTopic{Filter: s.F, QoS: byte(s.O.QoS), NoLocal: s.O.NL, RAP: s.O.RAP, RH: byte(s.O.RH)})
		if s.O.SID > 0 {
			p.Props = &mw.Props{SubscriptionIDs: []uint32{uint32(s.O.SID)}}
		}
		r.mark(map[string]interface{}{"e": "try", "op": "subscribe", "c": s.C, "f": s.F, "fam": s.Fam, "o": s.O})
		arm()
		if err := a.c.Send(p); err != nil {
			return err
		}
		if cut {
			return finishCut()
		}
		ack, err := a.expect(tAck, func(p *mw.Packet) bool { return p.Type == mw.SUBACK && p.PacketID == pid })
		if err != nil || len(ack.Codes) != 1 || ack.Codes[0] != byte(s.O.QoS) {
			return fmt.Errorf("subscribe %s %s: SUBACK %v %v", s.C, s.F, ack, err)
		}
		ev := ackEv("suback", s.C)
		ev["f"] = s.F
		r.mark(ev)
	case "unsubscribe":
		pid := a.nextPid()
		r.mark(map[string]interface{}{"e": "try", "op": "unsubscribe", "c": s.C, "f": s.F})
		arm()
		if err := a.c.Send(mw.Unsubscribe(pid, s.F)); err != nil {
			return err
		}
		if cut {
			return finishCut()
		}
		ack, err := a.expect(tAck, func(p *mw.Packet) bool { return p.Type == mw.UNSUBACK && p.PacketID == pid })
		if err != nil || (len(ack.Codes) == 1 && ack.Codes[0] >= 0x80) {
			return fmt.Errorf("unsubscribe %s %s: %v %v", s.C, s.F, ack, err)
		}
		ev := ackEv("unsuback", s.C)
		ev["f"] = s.F
		r.mark(ev)
	case "publish":
		p := mw.Publish(s.Topic, byte(s.QoS), false, uint16(s.Pid), []byte(s.M))
		p.Dup = s.Dup
		r.mark(map[string]interface{}{"e": "try", "op": "publish", "c": s.C, "m": s.M, "fam": s.Fam, "qos": s.QoS, "pid": s.Pid, "dup": s.Dup})
		arm()
		if err := a.c.Send(p); err != nil {
			return err
		}
		if cut {
			return finishCut()
		}
		want := byte(mw.PUBACK)
		op := "puback"
		if s.QoS == 2 {
			want, op = mw.PUBREC, "pubrec"
		}
		ack, err := a.expect(tAck, func(p *mw.Packet) bool { return p.Type == want && p.PacketID == uint16(s.Pid) })
		if err != nil || ack.Code >= 0x80 {
			return fmt.Errorf("publish %s %s: %v %v", s.C, s.M, ack, err)
		}
		ev := ackEv(op, s.C)
		ev["m"], ev["pid"] = s.M, s.Pid
		r.mark(ev)
	case "pubrel":
		r.mark(map[string]interface{}{"e": "try", "op": "pubrel", "c": s.C, "pid": s.Pid})
		arm()
		if err := a.c.Send(mw.Ack(mw.PUBREL, uint16(s.Pid), 0)); err != nil {
			return err
		}
		if cut {
			return finishCut()
		}
		if _, err := a.expect(tAck, func(p *mw.Packet) bool { return p.Type == mw.PUBCOMP && p.PacketID == uint16(s.Pid) }); err != nil {
			return fmt.Errorf("pubrel %s %d: %v", s.C, s.Pid, err)
		}
		ev := ackEv("pubcomp", s.C)
		ev["pid"] = s.Pid
		r.mark(ev)
	case "recv":
		p, err := a.expect(tAck, func(p *mw.Packet) bool { return p.Type == mw.PUBLISH && string(p.Payload) == s.M })
		if err != nil {
			return fmt.Errorf("recv %s %s: %v", s.C, s.M, err)
		}
		a.pids[s.M] = p.PacketID
		r.mark(map[string]interface{}{"e": "got", "c": s.C, "m": s.M, "pid": int(p.PacketID), "qos": int(p.QoS), "dup": p.Dup})
	case "cack":
		pid, ok := a.pids[s.M]
		if !ok {
			return fmt.Errorf("cack %s %s: not received on this connection", s.C, s.M)
		}
		typ := map[string]byte{"puback": mw.PUBACK, "pubrec": mw.PUBREC, "pubcomp": mw.PUBCOMP}[s.T]
		r.mark(map[string]interface{}{"e": "try", "op": "cack", "c": s.C, "t": s.T, "m": s.M, "pid": int(pid)})
		arm()
		if err := a.c.Send(mw.Ack(typ, pid, 0)); err != nil {
			return err
		}
		if cut {
			return finishCut()
		}
		if s.T == "pubrec" {
			// the broker replaces the stored message by PUBREL before it writes PUBREL
			if _, err := a.expect(tAck, func(p *mw.Packet) bool { return p.Type == mw.PUBREL && p.PacketID == pid }); err != nil {
				return fmt.Errorf("cack %s %s: no PUBREL: %v", s.C, s.M, err)
			}
		} else {
			// one connection's packets are handled in order: PINGRESP implies the acknowledgement has been processed
			if err := a.c.Send(mw.Pingreq()); err != nil {
				return err
			}
			if _, err := a.expect(tAck, func(p *mw.Packet) bool { return p.Type == mw.PINGRESP }); err != nil {
				return fmt.Errorf("cack %s %s: no PINGRESP: %v", s.C, s.M, err)
			}
		}
		ev := ackEv("cacked", s.C)
		ev["m"], ev["pid"] = s.M, int(pid)
		r.mark(ev)
	case "close":
		r.mark(map[string]interface{}{"e": "try", "op": "close", "c": s.C, "how": s.How})
		arm()
		if s.How == "disconnect" {
			_ = a.c.Send(mw.Disconnect(0))
		}
		a.c.Close()
		delete(r.cl, s.C)
		if cut {
			return finishCut()
		}
		r.waitGone(s.C)
		r.mark(ackEv("closed", s.C))
	default:
		return fmt.Errorf("unknown step %q", s.Op)
	}
	return nil
}

func record(h *History) *Recorded {
	r := &recorder{h: h, out: &Recorded{ID: h.ID, Clients: h.Clients}, cl: map[string]*cli{}}
	if err := r.startLife(); err != nil {
		r.out.Fatal = err.Error()
		return r.out
	}
	for i := range h.Steps {
		var err error
		func() {
			defer func() {
				if e := recover(); e != nil {
					err = fmt.Errorf("driver panic: %v", e)
				}
			}()
			err = r.step(&h.Steps[i])
		}()
		if err != nil {
			r.out.Fatal = fmt.Sprintf("step %d (%s %s): %v", i, h.Steps[i].Op, h.Steps[i].C, err)
			break
		}
	}
	// packets nobody waited for (every delivery of a history has its recv step)
	for id, a := range r.cl {
		for _, p := range a.inbox {
			if p.Type == mw.PUBLISH {
				r.out.Notes = append(r.out.Notes, fmt.Sprintf("unexpected PUBLISH %q on %s", p.Payload, id))
			}
		}
	}
	if r.l != nil {
		r.mark(map[string]interface{}{"e": "end"})
		for _, a := range r.cl {
			a.c.Close()
		}
		n := r.l.fake.Seq()
		if err := r.l.b.Stop(5 * time.Second); err != nil {
			r.out.Notes = append(r.out.Notes, "stop: "+err.Error())
		}
		r.harvest()
		// commands of the shutdown (clients that were still online) are not part of the history
		for len(r.out.Entries) > 0 && r.out.Entries[len(r.out.Entries)-1].Ev["e"] != "end" {
			r.out.Entries = r.out.Entries[:len(r.out.Entries)-1]
		}
		_ = n
		r.l.fake.Close()
	}
	return r.out
}

// ------------------------------------------------------------------------------------------------ restart

type Req struct {
	Sess []struct {
		C  string `json:"c"`
		St string `json:"st"`
	} `json:"sess"`
	Subs []struct {
		C       string `json:"c"`
		F       string `json:"f"`
		Allowed []Opts `json:"allowed"`
	} `json:"subs"`
	Msgs []struct {
		C  string `json:"c"`
		M  string `json:"m"`
		St string `json:"st"`
		Q  int    `json:"q"`
	} `json:"msgs"`
	Ids []struct {
		C   string `json:"c"`
		Pid int    `json:"pid"`
		St  string `json:"st"`
	} `json:"ids"`
}

type Plan struct {
	H   string `json:"h"`
	K   int    `json:"k"`
	Req Req    `json:"req"`
}

type Div struct {
	Kind   string `json:"kind"`
	Sig    string `json:"sig"`
	C      string `json:"c,omitempty"`
	X      string `json:"x,omitempty"`
	Detail string `json:"detail,omitempty"`
}

type Result struct {
	H                  string `json:"h"`
	K                  int    `json:"k"`
	Divs               []Div  `json:"divs"`
	Trouble            string `json:"trouble,omitempty"`    // machinery trouble: no verdict for this prefix
	Sessions           int    `json:"sessions"`             // persistent clients that were reconnected
	Checked            int    `json:"checked"`              // required facts compared (sessions, subscriptions, messages, ids)
	NSubs              int    `json:"nsubs"`                // (client, filter) pairs compared
	NMust              int    `json:"nmust"`                // messages that had to be sent again
	NDone              int    `json:"ndone"`                // messages that must not be sent again
	NIds               int    `json:"nids"`                 // QoS2 identifiers probed with a re-sent PUBLISH
	SmallWindowResumes int    `json:"small_window_resumes"` // first resumes with Receive Maximum 1 (batched in-flight replay)
	WallMs             int    `json:"wall_ms"`
}

func optsOf(s *gmqtt.Subscription) Opts {
	return Opts{QoS: int(s.QoS), NL: s.NoLocal, RAP: s.RetainAsPublished, RH: int(s.RetainHandling), SID: int(s.ID)}
}

func inOpts(o Opts, set []Opts) bool {
	for _, x := range set {
		if x == o {
			return true
		}
	}
	return false
}

// aged returns the journal with the connected_at field of every stored session moved `by` seconds into the past.
func aged(cmds []resp.Cmd, by int64) []resp.Cmd {
	out := make([]resp.Cmd, len(cmds))
	for i, c := range cmds {
		out[i] = c
		if len(c.Args) > 1 && strings.EqualFold(c.Args[0], "HSET") && strings.HasPrefix(c.Args[1], "session:") {
			a := append([]string(nil), c.Args...)
			for j := 2; j+1 < len(a); j += 2 {
				if a[j] == "connected_at" {
					if t, err := strconv.ParseInt(a[j+1], 10, 64); err == nil && t > by {
						a[j+1] = strconv.FormatInt(t-by, 10)
					}
				}
			}
			out[i].Args = a
		}
	}
	return out
}

func restart(rec *Recorded, pl *Plan) (res *Result) {
	t0 := time.Now()
	res = &Result{H: pl.H, K: pl.K, Divs: []Div{}}
	defer func() {
		if e := recover(); e != nil {
			res.Trouble = fmt.Sprintf("driver panic: %v", e)
		}
		res.WallMs = int(time.Since(t0) / time.Millisecond)
	}()
	div := func(kind, sig, c, x, detail string) {
		res.Divs = append(res.Divs, Div{Kind: kind, Sig: sig, C: c, X: x, Detail: detail})
	}
	if pl.K > len(rec.Entries) {
		res.Trouble = "prefix longer than the journal"
		return
	}
	var cmds []resp.Cmd
	for i := 0; i < pl.K; i++ {
		if len(rec.Entries[i].Args) > 0 {
			cmds = append(cmds, rec.Entries[i].cmd())
		}
	}
	if pl.K%2 == 1 {
		// "dies at any point" includes any time after the sessions were connected: on every other prefix the stored
		// connected_at is moved ~11 days into the past (longer than every expiry interval in use).  A session lives
		// until its expiry interval has passed since the END of its last connection - the crash -, however long that
		// connection had lasted.
		cmds = aged(cmds, 1000000)
	}
	fake, err := fakeFrom(cmds)
	if err != nil {
		res.Trouble = "fake: " + err.Error()
		return
	}
	ub, err := startUnix(brokerConfig(fake.Addr()), fmt.Sprintf("%s-%d", pl.H, pl.K))
	if err != nil {
		fake.Close()
		if strings.HasPrefix(err.Error(), "listen unix") {
			res.Trouble = err.Error()
			return
		}
		// StartupTotal
		div("startup_failed", "fe:startup_failed", "", "", err.Error())
		return
	}
	conns := map[string]*cli{}
	var probe *cli
	defer func() {
		for _, a := range conns {
			a.c.Close()
		}
		if probe != nil {
			probe.c.Close()
		}
		// Port hygiene (tens of thousands of restarts on a shared machine): the store is made to drop every redis
		// connection itself (FailAfter(1) + two writes: the second one "crashes" it, it closes all its connections and
		// refuses everything from then on), so the broker's pool never is the closing side and no client-side port
		// lingers in TIME_WAIT.  The store keeps its listening port until the broker has stopped: a broker whose store
		// is unreachable treats a failing session lookup of a disconnecting client as "no session" and issues DEL
		// commands, which must not reach the store of another restart that re-used the port.
		fake.FailAfter(1)
		if c, err := net.DialTimeout("tcp", fake.Addr(), time.Second); err == nil {
			c.Write([]byte("*2\r\n$3\r\nDEL\r\n$2\r\n~x\r\n*2\r\n$3\r\nDEL\r\n$2\r\n~x\r\n"))
			c.SetReadDeadline(time.Now().Add(time.Second))
			buf := make([]byte, 64)
			for {
				if _, err := c.Read(buf); err != nil {
					break
				}
			}
			c.Close()
		}
		if err := ub.stop(5 * time.Second); err != nil && res.Trouble == "" {
			res.Trouble = "stop of the restarted broker: " + err.Error()
		}
		fake.Close()
	}()
	b := struct {
		Srv  server.Server
		Addr string
	}{ub.srv, ub.path}

	must := map[string]bool{}
	var order []string
	for _, s := range pl.Req.Sess {
		if s.St == "must" {
			must[s.C] = true
			order = append(order, s.C)
		}
	}
	sort.Strings(order)

	// ---- sessions
	stored := map[string]bool{}
	if err := b.Srv.ClientService().IterateSession(func(s *gmqtt.Session) bool { stored[s.ClientID] = true; return true }); err != nil {
		div("session_iterate_failed", "fe:session_iterate_failed", "", "", err.Error())
	}
	for _, c := range order {
		res.Checked++
		if !stored[c] {
			div("session_lost", "fe:session_lost", c, "", "CONNACK had been read, the session store of the restarted broker does not list the client id")
		}
	}

	// ---- subscriptions
	actual := map[string]map[string]Opts{}
	b.Srv.SubscriptionService().Iterate(func(cid string, s *gmqtt.Subscription) bool {
		if actual[cid] == nil {
			actual[cid] = map[string]Opts{}
		}
		actual[cid][subscription.GetFullTopicName(s.ShareName, s.TopicFilter)] = optsOf(s)
		return true
	}, subscription.IterationOptions{Type: subscription.TypeAll})
	allowed := map[string]map[string][]Opts{}
	for _, s := range pl.Req.Subs {
		if allowed[s.C] == nil {
			allowed[s.C] = map[string][]Opts{}
		}
		allowed[s.C][s.F] = s.Allowed
	}
	for _, c := range order {
		fs := map[string]bool{}
		for f := range allowed[c] {
			fs[f] = true
		}
		for f := range actual[c] {
			fs[f] = true
		}
		var fl []string
		for f := range fs {
			fl = append(fl, f)
		}
		sort.Strings(fl)
		for _, f := range fl {
			res.Checked++
			res.NSubs++
			al, listed := allowed[c][f]
			if !listed {
				al = []Opts{noSub}
			}
			got, has := actual[c][f]
			if !has {
				got = noSub
			}
			if inOpts(got, al) {
				continue
			}
			ad, _ := json.Marshal(al)
			gd, _ := json.Marshal(got)
			switch {
			case !has:
				sig := "fe:sub_missing"
				if t := strings.TrimLeft(c, "sub:"); t != c {
					if o, ok := actual[t][f]; ok && inOpts(o, al) {
						sig = "fe:sub_filed_under_trimmed_client_id"
					}
				}
				div("sub_missing", sig, c, f, fmt.Sprintf("acknowledged subscription absent after restart; allowed %s; client ids holding subscriptions: %v", ad, keys(actual)))
			case listed && inOpts(noSub, al):
				// UNSUBACK read (a later SUBSCRIBE of the filter may be in flight): the old value must be gone
				div("sub_resurrected", "fe:sub_present_after_unsuback", c, f, fmt.Sprintf("UNSUBACK had been read, the subscription is back after restart: %s (allowed %s)", gd, ad))
			case !listed:
				div("sub_resurrected", "fe:sub_present_never_subscribed_in_session", c, f, "a subscription this session never made (left behind by an earlier session with this client id) is served after restart: "+string(gd))
			default:
				div("sub_options", "fe:sub_options_differ", c, f, fmt.Sprintf("options after restart %s, allowed %s", gd, ad))
			}
		}
	}

	// ---- reconnect every persistent client with Clean Start 0, collect what it is sent
	msgs := map[string]map[string]string{}
	for _, m := range pl.Req.Msgs {
		if msgs[m.C] == nil {
			msgs[m.C] = map[string]string{}
		}
		msgs[m.C][m.M] = m.St
	}
	// ---- on every third prefix: a first resume with Receive Maximum 1 (MQTT 5 clients with at least two stored unacknowledged
	// messages): the stored in-flight messages are read from the store in several batches; nothing is acknowledged, the
	// connection is dropped.  Whatever that resume did to the store, the second resume below is still owed everything.
	if pl.K%3 == 1 {
		for _, c := range order {
			def := rec.Clients[c]
			nmust := 0
			for _, st := range msgs[c] {
				if st == "must" {
					nmust++
				}
			}
			if def.Ver != 5 || nmust < 2 {
				continue
			}
			// twice: with the default window (everything stored is sent and becomes in flight, with packet ids, in the store),
			// then with Receive Maximum 1
			for round := 0; round < 2; round++ {
				a, p, err := dialConnect(b.Addr, c, def, false)
				if err != nil {
					res.Trouble = "dial: " + err.Error()
					return
				}
				if p.Props == nil {
					p.Props = &mw.Props{}
				}
				if round == 1 {
					p.Props.ReceiveMax = mw.U16(1)
				}
				if err := a.c.Send(p); err != nil {
					res.Trouble = "send CONNECT: " + err.Error()
					return
				}
				if ack, err := a.expect(tAck, func(p *mw.Packet) bool { return p.Type == mw.CONNACK }); err == nil && ack.Code == 0 && ack.SessionPresent {
					want := nmust
					if round == 1 {
						want = 1 // window 1
					}
					for i := 0; i < want; i++ { // nothing is acknowledged
						if _, err := a.expect(tAck/5, func(p *mw.Packet) bool { return p.Type == mw.PUBLISH }); err != nil {
							break
						}
					}
					time.Sleep(30 * time.Millisecond)
					if round == 1 {
						res.SmallWindowResumes++
					}
				}
				a.c.Close()
				// wait until the broker has let go of the connection (the next CONNECT must not race with its teardown)
				for i := 0; i < 200; i++ {
					if b.Srv.ClientService().GetClient(c) == nil {
						break
					}
					time.Sleep(5 * time.Millisecond)
				}
			}
		}
	}
	for _, c := range order {
		def := rec.Clients[c]
		a, p, err := dialConnect(b.Addr, c, def, false)
		if err != nil {
			res.Trouble = "dial: " + err.Error()
			return
		}
		conns[c] = a
		if err := a.c.Send(p); err != nil {
			res.Trouble = "send CONNECT: " + err.Error()
			return
		}
		ack, err := a.expect(tAck, func(p *mw.Packet) bool { return p.Type == mw.CONNACK })
		res.Sessions++
		res.Checked++
		if err != nil || ack.Code != 0 {
			div("reconnect_failed", "fe:reconnect_failed", c, "", fmt.Sprintf("CONNECT with Clean Start 0 after restart: %v %v", ack, err))
			continue
		}
		if !ack.SessionPresent {
			div("session_not_present", "fe:session_present_0", c, "", "CONNACK had been read before the crash; CONNECT with Clean Start 0 after restart answers Session Present 0")
			// the session is gone: its messages are reported once, through the session
			continue
		}
		// sentinel: FIFO session queue, one forwarding goroutine: everything stored before has been sent before it
		sf := "$vs/" + c
		spid := a.nextPid()
		if err := a.c.Send(mw.Subscribe(spid, mw.SubTopic{Filter: sf, QoS: 0})); err != nil {
			res.Trouble = "sentinel subscribe: " + err.Error()
			return
		}
		if _, err := a.expect(tAck, func(p *mw.Packet) bool { return p.Type == mw.SUBACK && p.PacketID == spid }); err != nil {
			res.Trouble = "sentinel SUBACK: " + err.Error()
			return
		}
		b.Srv.Publisher().Publish(&gmqtt.Message{Topic: sf, QoS: 0, Payload: []byte("~sentinel")})
		if _, err := a.expect(tAck, func(p *mw.Packet) bool { return p.Type == mw.PUBLISH && p.Topic == sf }); err != nil {
			res.Trouble = "sentinel of " + c + " not received: " + err.Error()
			return
		}
		delivered := map[string]*mw.Packet{}
		for _, p := range a.inbox {
			if p.Type == mw.PUBLISH {
				delivered[string(p.Payload)] = p
			}
		}
		var ms []string
		for m := range msgs[c] {
			ms = append(ms, m)
		}
		sort.Strings(ms)
		for _, m := range ms {
			res.Checked++
			_, got := delivered[m]
			if msgs[c][m] == "must" {
				res.NMust++
			} else if msgs[c][m] == "done" {
				res.NDone++
			}
			switch st := msgs[c][m]; {
			case st == "must" && !got:
				div("msg_lost", "fe:acked_message_not_redelivered", c, m, "the publisher had read its acknowledgement, the subscriber had not acknowledged; not sent again after restart + CONNECT with Clean Start 0")
			case st == "done" && got:
				div("msg_redelivered_after_ack", "fe:message_redelivered_after_subscriber_ack", c, m, "the subscriber's acknowledgement had been processed (round trip) before the crash; PUBLISH sent again after restart")
			}
		}
		for m := range delivered {
			if _, ok := msgs[c][m]; !ok {
				div("unexpected_message", "fe:unexpected_message", c, m, "a message that was never owed to this session is sent after restart")
			}
		}
	}

	// ---- QoS2 identifiers awaiting PUBREL are still duplicates
	type idq struct {
		c   string
		pid int
	}
	var ids []idq
	for _, x := range pl.Req.Ids {
		if x.St == "must" && conns[x.C] != nil && must[x.C] {
			ids = append(ids, idq{x.C, x.Pid})
		}
	}
	if len(ids) > 0 {
		var p *mw.Packet
		probe, p, err = dialConnect(b.Addr, "~probe", ClientDef{Ver: 4, Exp: -1}, true)
		if err != nil {
			probe = nil
			res.Trouble = "probe dial: " + err.Error()
			return
		}
		probe.c.Send(p)
		if _, err := probe.expect(tAck, func(p *mw.Packet) bool { return p.Type == mw.CONNACK }); err != nil {
			res.Trouble = "probe CONNACK: " + err.Error()
			return
		}
		probe.c.Send(mw.Subscribe(1, mw.SubTopic{Filter: "~pr/#", QoS: 0}))
		if _, err := probe.expect(tAck, func(p *mw.Packet) bool { return p.Type == mw.SUBACK }); err != nil {
			res.Trouble = "probe SUBACK: " + err.Error()
			return
		}
		released := map[string]bool{} // ids the probe completed with PUBREL and used again
		for xi, x := range ids {
			a := conns[x.c]
			res.Checked++
			res.NIds++
			topic := fmt.Sprintf("~pr/%s/%d", x.c, x.pid)
			if (pl.K+xi)%2 == 1 {
				// the other half of the exchange: the publisher does not re-send the PUBLISH, it completes the exchange
				// (PUBREL -> PUBCOMP); the identifier is free then, and a NEW message under it must be forwarded
				rel := mw.Ack(mw.PUBREL, uint16(x.pid), 0)

				if err := a.c.Send(rel); err != nil {
					div("rel_probe_failed", "fe:no_pubcomp_after_restart", x.c, strconv.Itoa(x.pid), err.Error())
					continue
				}
				if _, err := a.expect(tAck, func(p *mw.Packet) bool { return p.Type == mw.PUBCOMP && p.PacketID == uint16(x.pid) }); err != nil {
					div("rel_probe_failed", "fe:no_pubcomp_after_restart", x.c, strconv.Itoa(x.pid), err.Error())
					continue
				}
				np := mw.Publish(topic, 2, false, uint16(x.pid), []byte("~new"))

				if err := a.c.Send(np); err == nil {
					if _, err := a.expect(tAck, func(p *mw.Packet) bool { return p.Type == mw.PUBREC && p.PacketID == uint16(x.pid) }); err != nil {
						div("rel_probe_failed", "fe:no_pubrec_for_reused_id", x.c, strconv.Itoa(x.pid), err.Error())
						continue
					}
				}
				released[topic] = true
				continue
			}
			pk := mw.Publish(topic, 2, false, uint16(x.pid), []byte("~dup"))
			pk.Dup = true
			if err := a.c.Send(pk); err != nil {
				div("dup_probe_failed", "fe:no_pubrec_for_resent_publish", x.c, strconv.Itoa(x.pid), err.Error())
				continue
			}
			if _, err := a.expect(tAck, func(p *mw.Packet) bool { return p.Type == mw.PUBREC && p.PacketID == uint16(x.pid) }); err != nil {
				div("dup_probe_failed", "fe:no_pubrec_for_resent_publish", x.c, strconv.Itoa(x.pid), err.Error())
				continue
			}
		}
		probe.c.Send(mw.Publish("~pr/end", 0, false, 0, []byte("~end")))
		if _, err := probe.expect(tAck, func(p *mw.Packet) bool { return p.Type == mw.PUBLISH && p.Topic == "~pr/end" }); err != nil {
			res.Trouble = "probe end marker: " + err.Error()
			return
		}
		for _, p := range probe.inbox {
			if p.Type == mw.PUBLISH && string(p.Payload) == "~new" {
				delete(released, p.Topic)
			}
		}
		for topic := range released {
			parts := strings.Split(topic, "/")
			div("qos2_id_not_released", "fe:qos2_id_stuck_after_restart", parts[1], parts[len(parts)-1],
				"PUBREC had been read before the crash; after the restart PUBREL was answered with PUBCOMP, but a NEW PUBLISH under the same packet id was acknowledged and not forwarded")
		}
		for _, p := range probe.inbox {
			if p.Type == mw.PUBLISH && string(p.Payload) == "~dup" {
				parts := strings.Split(p.Topic, "/")
				div("qos2_id_forgotten", "fe:qos2_duplicate_forwarded_after_restart", parts[1], parts[len(parts)-1],
					"PUBREC had been read, no PUBREL sent; the same PUBLISH (DUP, same packet id) re-sent after restart is forwarded again")
			}
		}
	}
	return
}

func keys(m map[string]map[string]Opts) []string {
	var ks []string
	for k := range m {
		ks = append(ks, k)
	}
	sort.Strings(ks)
	return ks
}

// ------------------------------------------------------------------------------------------------ main

func readLines(path string, fn func([]byte) error) error {
	f, err := os.Open(path)
	if err != nil {
		return err
	}
	defer f.Close()
	sc := bufio.NewScanner(f)
	sc.Buffer(make([]byte, 1<<20), 256<<20)
	for sc.Scan() {
		if len(sc.Bytes()) == 0 {
			continue
		}
		if err := fn(sc.Bytes()); err != nil {
			return err
		}
	}
	return sc.Err()
}

func die(a ...interface{}) {
	fmt.Fprintln(os.Stderr, a...)
	os.Exit(2)
}

func main() {
	if len(os.Args) < 2 {
		die("usage: durable record|restart ...")
	}
	mode := os.Args[1]
	fs := flag.NewFlagSet(mode, flag.ExitOnError)
	in := fs.String("in", "", "record: histories (ndjson)")
	journals := fs.String("journals", "", "restart: output of record")
	plan := fs.String("plan", "", "restart: plan lines {h,k,req}")
	out := fs.String("out", "", "output (ndjson)")
	par := fs.Int("par", 16, "parallelism")
	rate := fs.Int("rate", 0, "restart: at most this many restarts per second (0 = unlimited); bounds the sockets left in TIME_WAIT")
	fs.Parse(os.Args[2:])
	of, err := os.Create(*out)
	if err != nil {
		die(err)
	}
	w := bufio.NewWriterSize(of, 1<<20)
	var wmu sync.Mutex
	emit := func(v interface{}) {
		b, err := json.Marshal(v)
		if err != nil {
			die("marshal:", err)
		}
		wmu.Lock()
		w.Write(b)
		w.WriteByte('\n')
		wmu.Unlock()
	}
	sem := make(chan struct{}, *par)
	var wg sync.WaitGroup
	t0 := time.Now()
	switch mode {
	case "record":
		var hs []*History
		if err := readLines(*in, func(b []byte) error {
			h := &History{}
			if err := json.Unmarshal(b, h); err != nil {
				return err
			}
			hs = append(hs, h)
			return nil
		}); err != nil {
			die("histories:", err)
		}
		var n, ncmd, fatal int
		var mu sync.Mutex
		for _, h := range hs {
			wg.Add(1)
			sem <- struct{}{}
			go func(h *History) {
				defer func() { <-sem; wg.Done() }()
				r := record(h)
				emit(r)
				mu.Lock()
				n += len(r.Entries)
				for i := range r.Entries {
					if len(r.Entries[i].Args) > 0 {
						ncmd++
					}
				}
				if r.Fatal != "" {
					fatal++
				}
				mu.Unlock()
			}(h)
		}
		wg.Wait()
		w.Flush()
		of.Close()
		s, _ := json.Marshal(map[string]interface{}{"histories": len(hs), "entries": n, "commands": ncmd, "fatal": fatal,
			"wall_ms": int(time.Since(t0) / time.Millisecond)})
		fmt.Println(string(s))
	case "restart":
		sd, err := os.MkdirTemp("", "c09sock")
		if err != nil {
			die(err)
		}
		sockDir = sd
		defer os.RemoveAll(sd)
		recs := map[string]*Recorded{}
		if err := readLines(*journals, func(b []byte) error {
			r := &Recorded{}
			if err := json.Unmarshal(b, r); err != nil {
				return err
			}
			recs[r.ID] = r
			return nil
		}); err != nil {
			die("journals:", err)
		}
		var plans []*Plan
		if err := readLines(*plan, func(b []byte) error {
			p := &Plan{}
			if err := json.Unmarshal(b, p); err != nil {
				return err
			}
			plans = append(plans, p)
			return nil
		}); err != nil {
			die("plan:", err)
		}
		var ndiv, ntrouble, checked int
		var mu sync.Mutex
		tStart := time.Now()
		for i, p := range plans {
			rec := recs[p.H]
			if rec == nil {
				die("plan refers to unknown history", p.H)
			}
			if *rate > 0 {
				if due := tStart.Add(time.Duration(i) * time.Second / time.Duration(*rate)); time.Now().Before(due) {
					time.Sleep(time.Until(due))
				}
			}
			wg.Add(1)
			sem <- struct{}{}
			go func(rec *Recorded, p *Plan) {
				defer func() { <-sem; wg.Done() }()
				r := restart(rec, p)
				emit(r)
				mu.Lock()
				ndiv += len(r.Divs)
				checked += r.Checked
				if r.Trouble != "" {
					ntrouble++
				}
				mu.Unlock()
			}(rec, p)
		}
		wg.Wait()
		w.Flush()
		of.Close()
		s, _ := json.Marshal(map[string]interface{}{"restarts": len(plans), "divergences": ndiv, "trouble": ntrouble, "checked": checked,
			"wall_ms": int(time.Since(t0) / time.Millisecond)})
		fmt.Println(string(s))
	default:
		die("unknown mode", mode)
	}
}
