// substore replays every transition of the SubStore model (TLC output on stdin) into the real
// subscription store and compares result + projection (all query modes + counters) with what the
// specification predicts.  Oracle = the specification: the Match relation is printed by TLC, the
// expected sets are joins of that table with the abstract state carried by each transition.
package main

import (
	"encoding/json"
	"flag"
	"fmt"
	"os"
	"sort"
	"strconv"
	"strings"
	"sync/atomic"

	"github.com/DrmagicE/gmqtt"
	"github.com/DrmagicE/gmqtt/persistence/subscription"
	"github.com/DrmagicE/gmqtt/persistence/subscription/mem"
	redis_sub "github.com/DrmagicE/gmqtt/persistence/subscription/redis"
	redigo "github.com/gomodule/redigo/redis"

	"verifharness/resp"
	"verifharness/tc"
)

type Opt struct {
	Qos int  `json:"qos"`
	Nl  bool `json:"nl"`
	Rap bool `json:"rap"`
	Rh  int  `json:"rh"`
	Id  int  `json:"id"`
}

type Op struct {
	Op  string `json:"op"`
	C   string `json:"c"`
	N   string `json:"n"`
	O   *Opt   `json:"o"`
	Res *bool  `json:"res"`
}

type Sub struct {
	C string `json:"c"`
	N string `json:"n"`
	O Opt    `json:"o"`
}

type Trans struct {
	Pre    []Op  `json:"pre"`
	Op     Op    `json:"op"`
	Subs   []Sub `json:"subs"`
	Total  int   `json:"total"`
	Ctotal []struct {
		C string `json:"c"`
		V int    `json:"v"`
	} `json:"ctotal"`
}

type Meta struct {
	Clients []string `json:"clients"`
	Filters []string `json:"filters"` // full names
	Topics  []string `json:"topics"`
}

type MatchLine struct {
	Match []struct {
		F string `json:"f"`
		T string `json:"t"`
	} `json:"match"`
}

var (
	meta    Meta
	match   = map[[2]string]bool{} // (full filter name, topic)
	haveTab bool
	rep     = tc.NewReporter()
)

func split(full string) (share, filter string) {
	if strings.HasPrefix(full, "$share/") {
		p := strings.SplitN(full, "/", 3)
		return p[1], p[2]
	}
	return "", full
}

func mkSub(n string, o Opt) *gmqtt.Subscription {
	sh, f := split(n)
	return &gmqtt.Subscription{ShareName: sh, TopicFilter: f, ID: uint32(o.Id), QoS: uint8(o.Qos), NoLocal: o.Nl,
		RetainAsPublished: o.Rap, RetainHandling: byte(o.Rh)}
}

func key(c string, s *gmqtt.Subscription) string {
	b := make([]byte, 0, 48)
	b = append(b, c...)
	b = append(b, '|')
	b = append(b, s.ShareName...)
	b = append(b, '|')
	b = append(b, s.TopicFilter...)
	b = append(b, "|q"...)
	b = strconv.AppendInt(b, int64(s.QoS), 10)
	b = append(b, " nl"...)
	b = strconv.AppendBool(b, s.NoLocal)
	b = append(b, " rap"...)
	b = strconv.AppendBool(b, s.RetainAsPublished)
	b = append(b, " rh"...)
	b = strconv.AppendInt(b, int64(s.RetainHandling), 10)
	b = append(b, " id"...)
	b = strconv.AppendInt(b, int64(s.ID), 10)
	return string(b)
}

func expKey(s Sub) string { return key(s.C, mkSub(s.N, s.O)) }

func apply(st subscription.Store, op Op) (existed bool, err error) {
	defer func() {
		if r := recover(); r != nil {
			err = fmt.Errorf("panic: %v", r)
		}
	}()
	switch op.Op {
	case "sub":
		rs, e := st.Subscribe(op.C, mkSub(op.N, *op.O))
		if e != nil {
			return false, e
		}
		if len(rs) != 1 {
			return false, fmt.Errorf("SubscribeResult has %d entries", len(rs))
		}
		return rs[0].AlreadyExisted, nil
	case "unsub":
		return false, st.Unsubscribe(op.C, op.N)
	case "unsuball":
		return false, st.UnsubscribeAll(op.C)
	}
	return false, fmt.Errorf("unknown op %q", op.Op)
}

func query(st subscription.Store, o subscription.IterationOptions) (got []string, err error) {
	defer func() {
		if r := recover(); r != nil {
			err = fmt.Errorf("panic: %v", r)
		}
	}()
	st.Iterate(func(c string, s *gmqtt.Subscription) bool {
		if s == nil {
			got = append(got, c+"|<nil subscription>")
			return true
		}
		got = append(got, key(c, s))
		return true
	}, o)
	if len(got) > 1 {
		sort.Strings(got)
	}
	return
}

func same(a, b []string) bool {
	if len(a) != len(b) {
		return false
	}
	for i := range a {
		if a[i] != b[i] {
			return false
		}
	}
	return true
}

type kind struct {
	name string
	typ  subscription.IterationType
	sel  func(share string, sysFilter bool) bool
}

var kinds = []kind{
	{"all", subscription.TypeAll, func(string, bool) bool { return true }},
	{"nonshared+sys", subscription.TypeNonShared | subscription.TypeSYS, func(sh string, _ bool) bool { return sh == "" }},
	{"shared", subscription.TypeShared, func(sh string, _ bool) bool { return sh != "" }},
	{"nonshared", subscription.TypeNonShared, func(sh string, sys bool) bool { return sh == "" && !sys }},
	{"sys", subscription.TypeSYS, func(sh string, sys bool) bool { return sh == "" && sys }},
}

var target = "mem"

// env is what one transition runs on: the memory store, or (target redis) the redis-backed store over a fresh
// in-process RESP server, which also allows a "restart": a new store object that loads the stored subscriptions.
type env struct {
	st   subscription.Store
	srv  *resp.Server
	pool *redigo.Pool
}

func newEnv() (*env, error) {
	if target == "mem" {
		return &env{st: mem.NewStore()}, nil
	}
	srv, err := resp.NewServer()
	if err != nil {
		return nil, err
	}
	addr := srv.Addr()
	pool := &redigo.Pool{MaxIdle: 2, Dial: func() (redigo.Conn, error) { return redigo.Dial("tcp", addr) }}
	return &env{st: redis_sub.New(pool), srv: srv, pool: pool}, nil
}

func (e *env) close() {
	if e.srv != nil {
		_ = e.pool.Close()
		_ = e.srv.Close()
	}
}

// restarted returns a new store object over the same stored data (what server.Init does after a restart).
func (e *env) restarted() (subscription.Store, error) {
	st := redis_sub.New(e.pool)
	return st, st.Init(meta.Clients)
}

var nontriv int64

func one(js []byte) {
	var t Trans
	if err := json.Unmarshal(js, &t); err != nil {
		rep.Div("harness", "cannot parse transition: "+err.Error(), js, nil)
		return
	}
	atomic.AddInt64(&rep.N, 1)
	e, err := newEnv()
	if err != nil {
		fmt.Fprintln(os.Stderr, "environment:", err)
		os.Exit(2)
	}
	defer e.close()
	st := e.st
	for _, op := range t.Pre {
		if _, err := apply(st, op); err != nil {
			rep.Div("pre-op-error", fmt.Sprintf("%s during prefix: %v", op.Op, err), js, nil)
			return
		}
	}
	existed, err := apply(st, t.Op)
	if err != nil {
		rep.Div("op-error:"+t.Op.Op, fmt.Sprintf("%v", err), js, nil)
		return
	}
	if t.Op.Op == "sub" && t.Op.Res != nil && existed != *t.Op.Res {
		rep.Div("already-existed", fmt.Sprintf("Subscribe(%s,%s) reported AlreadyExisted=%v, specification says %v", t.Op.C, t.Op.N, existed, *t.Op.Res), js, nil)
	}
	if len(t.Subs) > 0 || len(t.Pre) > 0 {
		atomic.AddInt64(&rep.NonTriv, 1)
	}
	verify(st, &t, js, true)
	if target == "redis" {
		// the stored form must yield the same answers after a restart (the Total counters are not stored)
		st2, err := e.restarted()
		if err != nil {
			rep.Div("restart-error", fmt.Sprintf("Init on the stored subscriptions: %v", err), js, nil)
		} else {
			verify(st2, &t, js, false)
		}
	}
	rep.Sample(js, 3)
}

func verify(st subscription.Store, t *Trans, js []byte, totals bool) {
	pfx := ""
	if !totals {
		pfx = "restart:"
	}
	type es struct {
		k     string
		c, n  string
		share string
		sys   bool
	}
	exp := make([]es, 0, len(t.Subs))
	for _, s := range t.Subs {
		sh, f := split(s.N)
		exp = append(exp, es{expKey(s), s.C, s.N, sh, sh == "" && strings.HasPrefix(f, "$")})
	}
	check := func(mode string, kn string, name string, c string, o subscription.IterationOptions, want []string) {
		got, err := query(st, o)
		if len(want) > 1 {
			sort.Strings(want)
		}
		if err != nil {
			what := fmt.Sprintf("%s type=%s name=%q client=%q", mode, kn, name, c)
			rep.Div(pfx+"query-panic:"+mode, fmt.Sprintf("%s%s: %v", pfx, what, err), js, nil)
			return
		}
		if !same(got, want) {
			what := fmt.Sprintf("%s type=%s name=%q client=%q", mode, kn, name, c)
			rep.Div(pfx+"query:"+mode, fmt.Sprintf("%s%s returned %v, specification says %v", pfx, what, got, want), js, nil)
		}
	}
	clients := append([]string{""}, meta.Clients...)
	for _, k := range kinds {
		// (1) lookup by topic name (MatchFilter)
		for _, topic := range meta.Topics {
			for _, c := range clients {
				var want []string
				for _, e := range exp {
					if match[[2]string{e.n, topic}] && k.sel(e.share, e.sys) && (c == "" || c == e.c) {
						want = append(want, e.k)
					}
				}
				check("match-topic", k.name, topic, c,
					subscription.IterationOptions{Type: k.typ, TopicName: topic, MatchType: subscription.MatchFilter, ClientID: c}, want)
			}
		}
		// (2) lookup by exact filter (MatchName)
		for _, f := range meta.Filters {
			for _, c := range clients {
				var want []string
				for _, e := range exp {
					if e.n == f && k.sel(e.share, e.sys) && (c == "" || c == e.c) {
						want = append(want, e.k)
					}
				}
				check("by-name", k.name, f, c,
					subscription.IterationOptions{Type: k.typ, TopicName: f, MatchType: subscription.MatchName, ClientID: c}, want)
			}
		}
		// (3) by client, (4) everything
		for _, c := range clients {
			var want []string
			for _, e := range exp {
				if k.sel(e.share, e.sys) && (c == "" || c == e.c) {
					want = append(want, e.k)
				}
			}
			check("by-client", k.name, "", c, subscription.IterationOptions{Type: k.typ, ClientID: c}, want)
		}
	}
	// (5) counters
	gs := st.GetStats()
	if int(gs.SubscriptionsCurrent) != len(t.Subs) || (totals && int(gs.SubscriptionsTotal) != t.Total) {
		rep.Div(pfx+"stats:global", fmt.Sprintf("GetStats = {total %d, current %d}, specification says {total %d, current %d}",
			gs.SubscriptionsTotal, gs.SubscriptionsCurrent, t.Total, len(t.Subs)), js, nil)
	}
	for _, ct := range t.Ctotal {
		cur := 0
		for _, s := range t.Subs {
			if s.C == ct.C {
				cur++
			}
		}
		cs, err := st.GetClientStats(ct.C)
		if err != nil {
			cs = subscription.Stats{}
		}
		if int(cs.SubscriptionsCurrent) != cur || (totals && int(cs.SubscriptionsTotal) != ct.V) {
			rep.Div(pfx+"stats:client", fmt.Sprintf("GetClientStats(%s) = {total %d, current %d}, specification says {total %d, current %d}",
				ct.C, cs.SubscriptionsTotal, cs.SubscriptionsCurrent, ct.V, cur), js, nil)
		}
	}
}

func main() {
	metaPath := flag.String("meta", "", "pack description (clients, filters, topics)")
	workers := flag.Int("workers", 0, "")
	tgt := flag.String("target", "mem", "mem | redis (redis-backed store over the in-process RESP server, with restart)")
	raw := flag.Bool("raw", false, "stdin lines are plain JSON (replay) instead of TLA+ string literals")
	flag.Parse()
	if *tgt != "mem" && *tgt != "redis" {
		fmt.Fprintln(os.Stderr, "unknown target", *tgt)
		os.Exit(2)
	}
	target = *tgt
	b, err := os.ReadFile(*metaPath)
	if err != nil {
		fmt.Fprintln(os.Stderr, err)
		os.Exit(2)
	}
	if err := json.Unmarshal(b, &meta); err != nil {
		fmt.Fprintln(os.Stderr, err)
		os.Exit(2)
	}
	head := func(js []byte) bool {
		if len(js) > 9 && string(js[:9]) == `{"match":` {
			var m MatchLine
			if err := json.Unmarshal(js, &m); err != nil {
				fmt.Fprintln(os.Stderr, "bad match table", err)
				os.Exit(2)
			}
			for _, p := range m.Match {
				match[[2]string{p.F, p.T}] = true
			}
			haveTab = true
			return true
		}
		if !haveTab {
			fmt.Fprintln(os.Stderr, "transition before match table")
			os.Exit(2)
		}
		return false
	}
	if err := tc.Each(os.Stdin, *workers, *raw, head, one); err != nil {
		fmt.Fprintln(os.Stderr, err)
		os.Exit(2)
	}
	rep.Summary(map[string]interface{}{"match_pairs": len(match)})
}
