// fedstream replays every transition of FedStream.tla (TLC output on stdin) on the REAL federation objects:
// two Federation values built through plugin/federation/verif_export.go (node A emits, node B applies), the
// real eventQueue / sessionMgr / lruCache / peer.initStream / stream.readLoop / stream.sendEvents /
// Federation.Hello / Federation.EventStream / eventStreamHandler / nodeJoin / nodeFail and the hook wrappers.
// The two ends are connected by fake bidi-stream objects whose Send/Recv go through driver-controlled
// hand-offs: the driver plays the network (and the Go scheduler) at exactly the grain of the model's actions.
//
// For each line {pre, op, st, taint, bad}: fresh objects, apply pre, apply op (checking what the operation
// returns), then compare the projection of the real objects with st.  If the model marks the state as violating
// a design-level property (bad) the property is re-evaluated on the real objects and, if it fails there too,
// reported as a divergence of the real code with the history that leads to it.  Oracle = the specification.
package main

import (
	"context"
	"encoding/json"
	"errors"
	"flag"
	"fmt"
	"net"
	"os"
	"reflect"
	"runtime"
	"sort"
	"strings"
	"sync"
	"sync/atomic"
	"syscall"
	"time"

	"github.com/hashicorp/serf/serf"
	"google.golang.org/grpc"
	"google.golang.org/grpc/credentials/insecure"
	"google.golang.org/grpc/metadata"

	"github.com/DrmagicE/gmqtt"
	"github.com/DrmagicE/gmqtt/persistence/subscription/mem"
	"github.com/DrmagicE/gmqtt/pkg/packets"
	fed "github.com/DrmagicE/gmqtt/plugin/federation"
	"github.com/DrmagicE/gmqtt/retained"
	"github.com/DrmagicE/gmqtt/retained/trie"
	"github.com/DrmagicE/gmqtt/server"

	"verifharness/tc"
)

// ---------------------------------------------------------------------------------------------- model side

type Ev struct {
	K string `json:"k"`
	T string `json:"t"`
	P int    `json:"p"`
}

type QE struct {
	ID int `json:"id"`
	Ev Ev  `json:"ev"`
}

type Op struct {
	Op    string   `json:"op"`
	C     string   `json:"c"`
	T     string   `json:"t"`
	Ord   []string `json:"ord"`
	P     int      `json:"p"`
	Mode  string   `json:"mode"`
	Clean bool     `json:"clean"`
	Next  int      `json:"next"`
	N     int      `json:"n"`
	Sent  bool     `json:"sent"`
	ID    int      `json:"id"`
	Dup   bool     `json:"dup"`
	Acked bool     `json:"acked"`
	Which string   `json:"which"`
	C2S   int      `json:"c2s"`
	S2C   int      `json:"s2c"`
}

type Sess struct {
	On   bool  `json:"on"`
	Sid  int   `json:"sid"`
	Next int   `json:"next"`
	Seen []int `json:"seen"`
	Gen  int   `json:"gen"`
	Est  bool  `json:"est"`
}

type Pend struct {
	On  bool `json:"on"`
	ID  int  `json:"id"`
	Gen int  `json:"gen"`
}

type St struct {
	Idx []struct {
		C string `json:"c"`
		T string `json:"t"`
	} `json:"idx"`
	Aret      int      `json:"aret"`
	PeerOn    bool     `json:"peerOn"`
	Sid       int      `json:"sid"`
	Q         []QE     `json:"q"`
	Nr        int      `json:"nr"`
	NextID    int      `json:"nextID"`
	Qclosed   bool     `json:"qclosed"`
	Cst       string   `json:"cst"`
	Link      string   `json:"link"`
	C2S       []QE     `json:"c2s"`
	S2C       []int    `json:"s2c"`
	Bpeer     bool     `json:"bpeer"`
	Sess      Sess     `json:"sess"`
	View      []string `json:"view"`
	Pubd      []int    `json:"pubd"`
	Bret      int      `json:"bret"`
	Pend      Pend     `json:"pend"`
	Zomb      Pend     `json:"zomb"`
	Applied   []int    `json:"applied"`
	Quiescent bool     `json:"quiescent"`
}

type Trans struct {
	Pre   []Op     `json:"pre"`
	Op    Op       `json:"op"`
	St    St       `json:"st"`
	Taint []string `json:"taint"`
	Bad   []string `json:"bad"`
}

// ---------------------------------------------------------------------------------------------- fakes

type fakeSerf struct{}

func (fakeSerf) Join([]string, bool) (int, error) { return 0, nil }
func (fakeSerf) RemoveFailedNode(string) error    { return nil }
func (fakeSerf) Leave() error                     { return nil }
func (fakeSerf) Members() []serf.Member           { return nil }
func (fakeSerf) Shutdown() error                  { return nil }

type fakeMQTTClient struct{ opts server.ClientOptions }

func (c *fakeMQTTClient) ClientOptions() *server.ClientOptions { return &c.opts }
func (c *fakeMQTTClient) SessionInfo() *gmqtt.Session          { return nil }
func (c *fakeMQTTClient) Version() packets.Version             { return packets.Version5 }
func (c *fakeMQTTClient) ConnectedAt() time.Time               { return time.Time{} }
func (c *fakeMQTTClient) Connection() net.Conn                 { return nil }
func (c *fakeMQTTClient) Close()                               {}
func (c *fakeMQTTClient) Disconnect(*packets.Disconnect)       {}

type recPublisher struct {
	mu   sync.Mutex
	msgs []*gmqtt.Message
}

func (r *recPublisher) Publish(m *gmqtt.Message) {
	r.mu.Lock()
	r.msgs = append(r.msgs, m)
	r.mu.Unlock()
}

var errBroken = errors.New("verif: connection broken")

const handoff = 20 * time.Second // a hand-off that takes longer is a dead driver (machinery trouble)

type cliMsg struct {
	ack *fed.Ack
	err error
}
type srvMsg struct {
	ev  *fed.Event
	err error
}

// link is one fake connection: both stream ends plus the buffers the driver owns.
type link struct {
	mu   sync.Mutex
	c2s  []*fed.Event
	s2c  []*fed.Ack
	down bool

	cliRecvAt chan struct{}
	sendErrAt chan struct{} // sendEvents ran into a failing Send
	cliRecvCh chan cliMsg
	serveDone chan error
	cliAlive  bool

	srvRecvAt  chan struct{}
	srvRecvCh  chan srvMsg
	srvGateAt  chan struct{}
	srvGateGo  chan struct{}
	srvDone    chan error
	srvAlive   bool // the EventStream goroutine has not been told to end
	srvAtGate  bool
	srvParked  bool // left at the gate for ever (its session was closed; releasing it would spin, see report)
	srvPending uint64
	gen        int // number of the session object the server goroutine of this stream works on
}

func newLink() *link {
	return &link{sendErrAt: make(chan struct{}, 8), cliRecvAt: make(chan struct{}, 8), cliRecvCh: make(chan cliMsg), serveDone: make(chan error, 1),
		srvRecvAt: make(chan struct{}, 8), srvRecvCh: make(chan srvMsg), srvGateAt: make(chan struct{}, 8),
		srvGateGo: make(chan struct{}), srvDone: make(chan error, 1)}
}

// client end: grpc.BidiStreamingClient[Event, Ack]
type cliStream struct {
	grpc.ClientStream
	l *link
}

func (c *cliStream) Send(e *fed.Event) error {
	c.l.mu.Lock()
	defer c.l.mu.Unlock()
	if c.l.down {
		select {
		case c.l.sendErrAt <- struct{}{}:
		default:
		}
		return errBroken
	}
	c.l.c2s = append(c.l.c2s, e)
	return nil
}

func (c *cliStream) Recv() (*fed.Ack, error) {
	c.l.cliRecvAt <- struct{}{}
	m := <-c.l.cliRecvCh
	return m.ack, m.err
}

// server end: grpc.BidiStreamingServer[Event, Ack]
type srvStream struct {
	grpc.ServerStream
	l   *link
	ctx context.Context
}

func (s *srvStream) Context() context.Context { return s.ctx }

func (s *srvStream) Recv() (*fed.Event, error) {
	s.l.srvRecvAt <- struct{}{}
	m := <-s.l.srvRecvCh
	return m.ev, m.err
}

func (s *srvStream) Send(a *fed.Ack) error {
	s.l.mu.Lock()
	if s.l.down {
		s.l.mu.Unlock()
		return errBroken
	}
	s.l.s2c = append(s.l.s2c, a)
	s.l.mu.Unlock()
	// the ack is on the wire; the goroutine is held here until the driver lets it run on (SrvNext), which is
	// the same as the Go scheduler not running it between Send returning and the next statement
	s.l.srvGateAt <- struct{}{}
	<-s.l.srvGateGo
	return nil
}

// fakeClient is the FederationClient handed to peer.initStream.
type fakeClient struct {
	w     *world
	mode  string
	resp  *fed.ServerHello
	herr  error
	newl  *link
	calls int
}

func (f *fakeClient) Hello(ctx context.Context, in *fed.ClientHello, _ ...grpc.CallOption) (*fed.ServerHello, error) {
	f.calls++
	md, _ := metadata.FromOutgoingContext(ctx)
	resp, err := f.w.B.Hello(metadata.NewIncomingContext(context.Background(), md), in)
	f.resp, f.herr = resp, err
	if err != nil {
		return nil, err
	}
	if f.mode == "lost" {
		return nil, errBroken
	}
	return resp, nil
}

func (f *fakeClient) EventStream(ctx context.Context, _ ...grpc.CallOption) (grpc.BidiStreamingClient[fed.Event, fed.Ack], error) {
	if f.mode != "ok" {
		return nil, errBroken
	}
	md, _ := metadata.FromOutgoingContext(ctx)
	l := newLink()
	l.srvAlive = true
	f.newl = l
	ss := &srvStream{l: l, ctx: metadata.NewIncomingContext(context.Background(), md)}
	go func() { l.srvDone <- f.w.B.EventStream(ss) }()
	return &cliStream{l: l}, nil
}

// ---------------------------------------------------------------------------------------------- world

var sharedConn *grpc.ClientConn // stream.setError / peer.stop call conn.Close(); closing it twice is harmless

type world struct {
	A, B       *fed.Federation
	aSubs      *mem.TrieDB
	aRet, bRet retained.Store
	bPub       *recPublisher
	peer       *fed.VerifPeer
	uuids      []string // uuids[k-1] = session id of A's k-th peer object
	cur        *link    // current (or last) connection
	zomb       *link    // older connection whose server goroutine is still held at the ack gate
	fetchAt    chan struct{}
	fetchGo    chan struct{}
	closedAt   chan struct{}
	parked     []*link
	subHook    server.OnSubscribed
	unsubHook  server.OnUnsubscribed
	termHook   server.OnSessionTerminated
	msgHook    server.OnMsgArrived
	gen        int // session objects created on B so far (clean handshakes)
}

type machErr struct{ s string }

func (e machErr) Error() string { return e.s }

func wait(ch <-chan struct{}, what string) {
	select {
	case <-ch:
	case <-time.After(handoff):
		panic(machErr{"hand-off timeout: " + what})
	}
}

func newWorld() *world {
	w := &world{aSubs: mem.NewStore(), aRet: trie.NewStore(), bRet: trie.NewStore(), bPub: &recPublisher{},
		fetchAt: make(chan struct{}, 8), fetchGo: make(chan struct{}), closedAt: make(chan struct{}, 64)}
	w.A = fed.VerifNew(fed.VerifOptions{NodeName: "A", Serf: fakeSerf{}, LocalSubs: w.aSubs, Retained: w.aRet, Publisher: &recPublisher{}})
	w.B = fed.VerifNew(fed.VerifOptions{NodeName: "B", Serf: fakeSerf{}, LocalSubs: mem.NewStore(), Retained: w.bRet, Publisher: w.bPub})
	w.subHook = w.A.OnSubscribedWrapper(func(context.Context, server.Client, *gmqtt.Subscription) {})
	w.unsubHook = w.A.OnUnsubscribedWrapper(func(context.Context, server.Client, string) {})
	w.termHook = w.A.OnSessionTerminatedWrapper(func(context.Context, string, server.SessionTerminatedReason) {})
	w.msgHook = w.A.OnMsgArrivedWrapper(func(context.Context, server.Client, *server.MsgArrivedRequest) error { return nil })
	w.B.VerifStartEventHandler()
	w.B.VerifInjectMemberEvent(serf.EventMemberJoin, "A", "B")
	// a second peer C of A that nobody serves, whose queue is two events ahead of B's: every event A emits is queued for
	// both, with different ids (an Event object shared between the queues would carry the wrong id for one of them)
	w.A.VerifNodeJoin("C", "A")
	ctx := context.Background()
	shadow := &gmqtt.Subscription{TopicFilter: "shadow/x"}
	w.aSubs.Subscribe("shadow", shadow)
	w.subHook(ctx, &fakeMQTTClient{opts: server.ClientOptions{ClientID: "shadow"}}, shadow)
	w.aSubs.Unsubscribe("shadow", "shadow/x")
	w.unsubHook(ctx, &fakeMQTTClient{opts: server.ClientOptions{ClientID: "shadow"}}, "shadow/x")
	w.joinA()
	return w
}

func (w *world) joinA() {
	w.A.VerifNodeJoin("B", "A")
	w.peer = w.A.VerifPeer("B")
	w.peer.GateQueue(fed.VerifQueueHooks{BeforeFetch: func() {
		w.fetchAt <- struct{}{}
		<-w.fetchGo
	}, AfterClose: func() {
		select {
		case w.closedAt <- struct{}{}:
		default:
		}
	}})
	w.uuids = append(w.uuids, w.peer.SessionID())
}

// endServer makes the EventStream goroutine of l see a broken stream (only when it is blocked in Recv).
func (w *world) endServer(l *link) {
	if l == nil || !l.srvAlive || l.srvAtGate {
		return
	}
	l.srvAlive = false
	select {
	case l.srvRecvCh <- srvMsg{err: errBroken}:
	case <-time.After(handoff):
		panic(machErr{"server goroutine does not take the error"})
	}
	select {
	case <-l.srvDone:
	case <-time.After(handoff):
		panic(machErr{"EventStream does not return"})
	}
}

// endClient makes readLoop see a broken stream and lets sendEvents run into the closed queue.
func (w *world) endClient(l *link, recvFirst bool) {
	if l == nil || !l.cliAlive {
		return
	}
	l.cliAlive = false
	for len(w.closedAt) > 0 {
		<-w.closedAt
	}
	if recvFirst {
		select {
		case l.cliRecvCh <- cliMsg{err: errBroken}:
		case <-time.After(handoff):
			panic(machErr{"hand-off timeout: nobody takes `l.cliRecvCh <- cliMsg{err: errBroken}`"})
		}
		// readLoop: setError -> queue.close; sendEvents is held before fetchEvents: let it see the closed queue
		wait(w.closedAt, "readLoop closes the queue")
		select {
		case w.fetchGo <- struct{}{}:
		case <-time.After(handoff):
			panic(machErr{"hand-off timeout: nobody takes `w.fetchGo <- struct{}{}`"})
		}
	} else {
		// sendEvents is let go, runs into the failing Send, ends and closes the queue; then readLoop gets the
		// error of the closed connection
		select {
		case w.fetchGo <- struct{}{}:
		case <-time.After(handoff):
			panic(machErr{"hand-off timeout: nobody takes `w.fetchGo <- struct{}{}`"})
		}
		wait(l.sendErrAt, "sendEvents runs into the failing Send")
		wait(w.closedAt, "sendEvents closes the queue")
		select {
		case l.cliRecvCh <- cliMsg{err: errBroken}:
		case <-time.After(handoff):
			panic(machErr{"hand-off timeout: nobody takes `l.cliRecvCh <- cliMsg{err: errBroken}`"})
		}
	}
	select {
	case <-l.serveDone:
	case <-time.After(handoff):
		panic(machErr{"stream.serve does not return"})
	}
}

func split(full string) (share, filter string) {
	if strings.HasPrefix(full, "$share/") {
		p := strings.SplitN(full, "/", 3)
		return p[1], p[2]
	}
	return "", full
}

func payload(p int) []byte { return []byte(fmt.Sprintf("p%d", p)) }

func payloadNo(b []byte) int {
	var n int
	if _, err := fmt.Sscanf(string(b), "p%d", &n); err != nil {
		return -1
	}
	return n
}

func evOf(e *fed.Event) Ev {
	if s := e.GetSubscribe(); s != nil {
		full := s.TopicFilter
		if s.ShareName != "" {
			full = "$share/" + s.ShareName + "/" + s.TopicFilter
		}
		return Ev{K: "sub", T: full}
	}
	if u := e.GetUnsubscribe(); u != nil {
		return Ev{K: "unsub", T: u.TopicName}
	}
	if m := e.GetMessage(); m != nil {
		return Ev{K: "msg", T: m.TopicName, P: payloadNo(m.Payload)}
	}
	return Ev{K: "?"}
}

type retry struct{ why string }

// apply performs one model action on the real objects; it returns a description of a mismatch between what the
// operation itself reports and what the model says (empty = fine).
func (w *world) apply(op Op) string {
	ctx := context.Background()
	switch op.Op {
	case "sub":
		sh, f := split(op.T)
		sub := &gmqtt.Subscription{ShareName: sh, TopicFilter: f}
		w.aSubs.Subscribe(op.C, sub)
		w.subHook(ctx, &fakeMQTTClient{opts: server.ClientOptions{ClientID: op.C}}, sub)
	case "unsub":
		w.aSubs.Unsubscribe(op.C, op.T)
		w.unsubHook(ctx, &fakeMQTTClient{opts: server.ClientOptions{ClientID: op.C}}, op.T)
	case "term":
		before := 0
		if w.peer != nil {
			before = len(w.peer.Queue().Events)
		}
		w.aSubs.UnsubscribeAll(op.C)
		w.termHook(ctx, op.C, server.NormalTermination)
		if w.peer != nil && len(op.Ord) > 1 {
			// the order of the unsubscribe events is the iteration order of a Go map: re-run until it is the model's
			evs := w.peer.Queue().Events
			for i, t := range op.Ord {
				if before+i >= len(evs) || evOf(evs[before+i]).T != t {
					panic(retry{"term order"})
				}
			}
		}
	case "msg":
		m := &gmqtt.Message{Topic: "r", Payload: payload(op.P), Retained: true, QoS: 1}
		w.aRet.AddOrReplace(m.Copy())
		req := &server.MsgArrivedRequest{Message: m}
		if err := w.msgHook(ctx, &fakeMQTTClient{opts: server.ClientOptions{ClientID: "pub"}}, req); err != nil {
			return "OnMsgArrived returned " + err.Error()
		}
		if req.Message == nil {
			return "OnMsgArrived dropped a retained message"
		}
	case "hello":
		return w.hello(op)
	case "fetch":
		l := w.cur
		if op.Sent {
			select {
			case w.fetchGo <- struct{}{}:
			case <-time.After(handoff):
				panic(machErr{"hand-off timeout: nobody takes `w.fetchGo <- struct{}{}`"})
			}
			wait(w.fetchAt, "sendEvents back at fetch")
		} else {
			// Send failed: sendEvents ends, setError closed the queue; readLoop gets the error of the closed conn
			w.endClient(l, false)
			l.mu.Lock()
			l.s2c = nil
			l.mu.Unlock()
		}
	case "cliack":
		l := w.cur
		l.mu.Lock()
		if len(l.s2c) == 0 {
			l.mu.Unlock()
			return "no ack in flight on the real connection"
		}
		a := l.s2c[0]
		l.s2c = l.s2c[1:]
		l.mu.Unlock()
		if int(a.EventId) != op.ID {
			return fmt.Sprintf("ack in flight has id %d, model says %d", a.EventId, op.ID)
		}
		select {
		case l.cliRecvCh <- cliMsg{ack: a}:
		case <-time.After(handoff):
			panic(machErr{"hand-off timeout: nobody takes `l.cliRecvCh <- cliMsg{ack: a}`"})
		}
		wait(l.cliRecvAt, "readLoop back in Recv")
	case "clidetect":
		w.endClient(w.cur, true)
	case "srvrecv":
		l := w.cur
		l.mu.Lock()
		if len(l.c2s) == 0 {
			l.mu.Unlock()
			return "no event in flight on the real connection"
		}
		e := l.c2s[0]
		l.c2s = l.c2s[1:]
		if !op.Acked {
			l.c2s = nil
		}
		l.mu.Unlock()
		if int(e.Id) != op.ID {
			return fmt.Sprintf("event in flight has id %d, model says %d", e.Id, op.ID)
		}
		if !l.srvAlive {
			return "server goroutine already ended"
		}
		select {
		case l.srvRecvCh <- srvMsg{ev: e}:
		case <-time.After(handoff):
			panic(machErr{"hand-off timeout: nobody takes `l.srvRecvCh <- srvMsg{ev: e}`"})
		}
		if op.Acked {
			wait(l.srvGateAt, "server goroutine at the ack gate")
			l.srvAtGate = true
			l.srvPending = e.Id
			if autoNext {
				// repaired code under development: nextEventID is written before the ack is sent, the model has no SrvNext
				l.srvAtGate = false
				select {
				case l.srvGateGo <- struct{}{}:
				case <-time.After(handoff):
					panic(machErr{"hand-off timeout: nobody takes `l.srvGateGo <- struct{}{}`"})
				}
				wait(l.srvRecvAt, "server goroutine back in Recv")
			}
		} else {
			l.srvAlive = false
			select {
			case <-l.srvDone:
			case <-time.After(handoff):
				panic(machErr{"EventStream does not return after a failed Send"})
			}
		}
	case "srvnext":
		l := w.cur
		if op.Which == "zomb" {
			l = w.zomb
		}
		if l == nil || !l.srvAtGate || l.srvParked {
			return "no server goroutine at the ack gate"
		}
		if int(l.srvPending) != op.ID {
			return fmt.Sprintf("goroutine at the gate acked %d, model says %d", l.srvPending, op.ID)
		}
		l.srvAtGate = false
		select {
		case l.srvGateGo <- struct{}{}:
		case <-time.After(handoff):
			panic(machErr{"hand-off timeout: nobody takes `l.srvGateGo <- struct{}{}`"})
		}
		wait(l.srvRecvAt, "server goroutine back in Recv")
		if op.Which == "zomb" {
			w.endServer(l)
			w.zomb = nil
		}
	case "break":
		l := w.cur
		l.mu.Lock()
		l.down = true
		l.c2s = l.c2s[:op.C2S]
		l.s2c = l.s2c[:op.S2C]
		l.mu.Unlock()
	case "nodefailB":
		l := w.cur
		w.B.VerifInjectMemberEvent(serf.EventMemberFailed, "A")
		for _, x := range []*link{l, w.zomb} {
			if x == nil {
				continue
			}
			x.mu.Lock()
			x.down = true
			x.c2s = nil
			x.mu.Unlock()
			if x.srvAlive && x.srvAtGate && x.gen != w.gen {
				continue // works on an older, replaced (not closed) session object: stays releasable
			}
			if x.srvAlive && x.srvAtGate {
				// its session is closed: if released it would write the detached session and then spin in
				// `select { case <-done: }` for ever (federation.go EventStream); leave it parked
				x.srvParked = true
				x.srvAlive = false
			} else {
				w.endServer(x)
			}
		}
		if w.zomb != nil && w.zomb.srvParked {
			w.zomb = nil
		}
	case "nodejoinB":
		w.B.VerifInjectMemberEvent(serf.EventMemberJoin, "A")
	case "nodefailA":
		l := w.cur
		done := make(chan struct{})
		go func() { w.A.VerifNodeFail("B"); close(done) }()
		if l != nil {
			l.mu.Lock()
			l.down = true
			l.s2c = nil
			l.mu.Unlock()
			w.endClient(l, true)
		}
		wait(done, "nodeFail on A")
		w.peer = nil
	case "nodejoinA":
		w.joinA()
	default:
		return "unknown op " + op.Op
	}
	return ""
}

func (w *world) hello(op Op) string {
	if w.peer == nil {
		return "no peer object"
	}
	fc := &fakeClient{w: w, mode: op.Mode}
	old := w.cur
	if op.Mode == "ok" && old != nil {
		if old.srvAlive && old.srvAtGate {
			if w.zomb != nil {
				return "two goroutines at the ack gate"
			}
			w.zomb = old
		} else {
			w.endServer(old)
		}
	}
	if (op.Mode == "lost" || op.Mode == "openfail") && op.Clean && old != nil {
		// model assumption: the server goroutine of the old stream has ended before a clean session is created
		old.mu.Lock()
		old.c2s = nil
		old.mu.Unlock()
	}
	vs, err := w.peer.InitStream(fc, sharedConn)
	switch op.Mode {
	case "nopeer":
		if err == nil || fc.herr == nil {
			return "Hello succeeded although B has not seen A join"
		}
		return ""
	case "lost", "openfail":
		if err == nil {
			return "initStream succeeded although the handshake was cut"
		}
	case "ok":
		if err != nil {
			return "initStream failed: " + err.Error()
		}
	}
	if fc.herr != nil {
		return "Hello on B failed: " + fc.herr.Error()
	}
	if fc.resp.CleanStart {
		w.gen++
	}
	if fc.resp.CleanStart != op.Clean || int(fc.resp.NextEventId) != op.Next {
		return fmt.Sprintf("ServerHello{clean %v, next %d}, model says {clean %v, next %d}", fc.resp.CleanStart,
			fc.resp.NextEventId, op.Clean, op.Next)
	}
	if len(op.Ord) > 1 {
		evs := w.peer.Queue().Events
		for i, t := range op.Ord {
			if i >= len(evs) || evOf(evs[i]).T != t {
				panic(retry{"resync order"})
			}
		}
	}
	if op.Mode == "ok" {
		l := fc.newl
		l.gen = w.gen
		w.cur = l
		l.cliAlive = true
		go func() { l.serveDone <- vs.Serve() }()
		wait(l.srvRecvAt, "new server goroutine in Recv")
		wait(l.cliRecvAt, "new readLoop in Recv")
		wait(w.fetchAt, "new sendEvents at fetch")
	}
	return ""
}

// cleanup ends every goroutine that can be ended.
func (w *world) cleanup() {
	defer func() {
		if r := recover(); r != nil {
			atomic.AddInt64(&machTrouble, 1) // the wind-down itself ran into a hand-off that never happens
		}
	}()
	for _, l := range []*link{w.cur, w.zomb} {
		if l == nil {
			continue
		}
		l.mu.Lock()
		l.down = true
		l.mu.Unlock()
		if l.cliAlive {
			w.endClient(l, true)
		}
		if l.srvAlive && l.srvAtGate && !l.srvParked {
			l.srvAtGate = false
			select {
			case l.srvGateGo <- struct{}{}:
			case <-time.After(handoff):
				panic(machErr{"hand-off timeout: nobody takes `l.srvGateGo <- struct{}{}`"})
			}
			wait(l.srvRecvAt, "cleanup")
		}
		w.endServer(l)
	}
	w.B.VerifStop()
}

// ---------------------------------------------------------------------------------------------- projection

func sortedCopy(s []string) []string {
	c := append([]string{}, s...)
	sort.Strings(c)
	return c
}

func (w *world) realState() (St, map[string]interface{}) {
	var st St
	extra := map[string]interface{}{}
	lt := w.A.VerifLocalTopics()
	extra["localTopics"] = lt
	st.PeerOn = false
	for _, n := range w.A.VerifPeerNames() {
		if n == "B" && w.peer != nil {
			st.PeerOn = true
		}
	}
	if m := w.aRet.GetRetainedMessage("r"); m != nil {
		st.Aret = payloadNo(m.Payload)
	}
	st.Sid = len(w.uuids)
	st.Nr = -1
	if w.peer != nil {
		qv := w.peer.Queue()
		for _, e := range qv.Events {
			st.Q = append(st.Q, QE{ID: int(e.Id), Ev: evOf(e)})
		}
		st.Nr, st.NextID, st.Qclosed = int(qv.NextRead), int(qv.NextID), qv.Closed
		if w.uuids[len(w.uuids)-1] != w.peer.SessionID() {
			st.Sid = -1
		}
	}
	st.Cst, st.Link = "none", "none"
	if l := w.cur; l != nil {
		l.mu.Lock()
		if l.cliAlive {
			st.Cst = "up"
		}
		st.Link = "up"
		if l.down {
			st.Link = "down"
		}
		for _, e := range l.c2s {
			st.C2S = append(st.C2S, QE{ID: int(e.Id), Ev: evOf(e)})
		}
		for _, a := range l.s2c {
			st.S2C = append(st.S2C, int(a.EventId))
		}
		if l.srvAtGate && !l.srvParked {
			st.Pend = Pend{On: true, ID: int(l.srvPending)}
		}
		l.mu.Unlock()
	}
	if z := w.zomb; z != nil && z.srvAtGate && !z.srvParked {
		st.Zomb = Pend{On: true, ID: int(z.srvPending)}
	}
	for _, n := range w.B.VerifPeerNames() {
		if n == "A" {
			st.Bpeer = true
		}
	}
	if sv, ok := w.B.VerifSession("A"); ok {
		st.Sess.On = true
		st.Sess.Sid = -1
		for i, u := range w.uuids {
			if u == sv.ID {
				st.Sess.Sid = i + 1
			}
		}
		st.Sess.Next = int(sv.NextEventID)
		for _, id := range sv.Seen {
			st.Sess.Seen = append(st.Sess.Seen, int(id))
		}
	}
	st.View = w.B.VerifFedSubs()["A"]
	w.bPub.mu.Lock()
	for _, m := range w.bPub.msgs {
		st.Pubd = append(st.Pubd, payloadNo(m.Payload))
	}
	w.bPub.mu.Unlock()
	if m := w.bRet.GetRetainedMessage("r"); m != nil {
		st.Bret = payloadNo(m.Payload)
	}
	return st, extra
}

func qeq(a, b []QE) bool {
	if len(a) != len(b) {
		return false
	}
	for i := range a {
		if a[i] != b[i] {
			return false
		}
	}
	return true
}

func ieq(a, b []int) bool {
	if len(a) != len(b) {
		return false
	}
	for i := range a {
		if a[i] != b[i] {
			return false
		}
	}
	return true
}

// compare returns the names of the projection components that differ, with got/want text.
func compare(real St, lt map[string]uint64, m St) []string {
	var d []string
	add := func(name string, got, want interface{}) {
		d = append(d, fmt.Sprintf("%s: real %v, specification %v", name, got, want))
	}
	want := map[string]uint64{}
	for _, p := range m.Idx {
		want[p.T]++
	}
	if !reflect.DeepEqual(lt, want) && !(len(lt) == 0 && len(want) == 0) {
		add("localSubStore.topics", lt, want)
	}
	if real.Aret != m.Aret {
		add("A.retained", real.Aret, m.Aret)
	}
	if real.PeerOn != m.PeerOn {
		add("A.peers[B]", real.PeerOn, m.PeerOn)
	}
	if real.Sid != m.Sid {
		add("peer.sessionID#", real.Sid, m.Sid)
	}
	if m.PeerOn {
		if !qeq(real.Q, m.Q) {
			add("eventQueue.l", real.Q, m.Q)
		}
		if real.Nr != m.Nr {
			add("eventQueue.nextRead", real.Nr, m.Nr)
		}
		if real.NextID != m.NextID {
			add("eventQueue.nextID", real.NextID, m.NextID)
		}
		if real.Qclosed != m.Qclosed {
			add("eventQueue.closed", real.Qclosed, m.Qclosed)
		}
	}
	if real.Cst != m.Cst {
		add("client stream goroutines", real.Cst, m.Cst)
	}
	if real.Link != m.Link {
		add("link", real.Link, m.Link)
	}
	if !qeq(real.C2S, m.C2S) {
		add("c2s", real.C2S, m.C2S)
	}
	if !ieq(real.S2C, m.S2C) {
		add("s2c", real.S2C, m.S2C)
	}
	if real.Bpeer != m.Bpeer {
		add("B.peers[A]", real.Bpeer, m.Bpeer)
	}
	if real.Sess.On != m.Sess.On {
		add("session exists", real.Sess.On, m.Sess.On)
	} else if m.Sess.On {
		if real.Sess.Sid != m.Sess.Sid {
			add("session.id#", real.Sess.Sid, m.Sess.Sid)
		}
		if real.Sess.Next != m.Sess.Next {
			add("session.nextEventID", real.Sess.Next, m.Sess.Next)
		}
		if !ieq(real.Sess.Seen, m.Sess.Seen) {
			add("session.seenEvents", real.Sess.Seen, m.Sess.Seen)
		}
	}
	if !reflect.DeepEqual(sortedCopy(real.View), sortedCopy(m.View)) {
		add("fedSubStore[A]", sortedCopy(real.View), sortedCopy(m.View))
	}
	if !ieq(real.Pubd, m.Pubd) {
		add("published on B", real.Pubd, m.Pubd)
	}
	if real.Bret != m.Bret {
		add("B.retained", real.Bret, m.Bret)
	}
	if real.Pend.On != m.Pend.On || (m.Pend.On && real.Pend.ID != m.Pend.ID) {
		add("goroutine between ack and nextEventID", real.Pend, m.Pend)
	}
	if real.Zomb.On != m.Zomb.On || (m.Zomb.On && real.Zomb.ID != m.Zomb.ID) {
		add("old goroutine between ack and nextEventID", real.Zomb, m.Zomb)
	}
	return d
}

// realBad evaluates the design-level properties on the real objects.
func realBad(real St, lt map[string]uint64) map[string]string {
	out := map[string]string{}
	if real.Nr == -2 {
		out["NextReadValid"] = "eventQueue.nextRead points to an element that was removed from the list"
	}
	if real.Sess.On {
		for i, id := range real.Sess.Seen {
			if id != i {
				out["NoGapNoDup"] = fmt.Sprintf("events applied by B in this session (ids, in order): %v - not the consecutive ids 0..%d",
					real.Sess.Seen, len(real.Sess.Seen)-1)
				break
			}
		}
	}
	quiescent := real.Cst == "up" && real.Link == "up" && len(real.C2S) == 0 && len(real.S2C) == 0 && real.Nr == -1 &&
		!real.Pend.On && !real.Zomb.On
	canMove := (real.Cst == "up" && real.Nr >= 0 && !real.Qclosed) || (real.Cst == "up" && len(real.S2C) > 0) ||
		(real.Cst == "up" && real.Link == "down" && len(real.S2C) == 0) || (len(real.C2S) > 0 && !real.Pend.On && real.Sess.On) ||
		real.Pend.On || real.Zomb.On || !real.PeerOn || !real.Bpeer ||
		(real.PeerOn && real.Cst == "none" && real.Bpeer && !(real.Pend.On && real.Zomb.On))
	if !quiescent && !canMove {
		out["NoStuck"] = "neither node can do anything by itself although the stream is not idle"
	}
	if quiescent {
		var local []string
		for t := range lt {
			local = append(local, t)
		}
		sort.Strings(local)
		v := sortedCopy(real.View)
		if !reflect.DeepEqual(local, v) && !(len(local) == 0 && len(v) == 0) {
			out["QuiescentView"] = fmt.Sprintf("stream up and idle: B's view of A's subscriptions is %v, A's local subscription set is %v", v, local)
		}
		if len(real.Sess.Seen) != real.NextID || real.Bret != real.Aret {
			out["QuiescentComplete"] = fmt.Sprintf("stream up and idle: A emitted %d events in this session, B applied %v; retained payload on A p%d, on B p%d; still queued on A %v",
				real.NextID, real.Sess.Seen, real.Aret, real.Bret, real.Q)
		}
	}
	return out
}

// ---------------------------------------------------------------------------------------------- replay

var (
	rep      = tc.NewReporter()
	retries  int64
	badSeen  int64
	minMu    sync.Mutex
	minimal  = map[string]json.RawMessage{}
	minLen   = map[string]int{}
	opCount  = map[string]int64{}
	maxTries = 400
	autoNext = false
)

var machTrouble, skippedAfterTrouble, nDivergent int64

func noteMinimal(sig, what string, n int, js []byte) {
	minMu.Lock()
	if l, ok := minLen[sig]; !ok || n < l {
		minLen[sig] = n
		b, _ := json.Marshal(map[string]interface{}{"what": what, "line": json.RawMessage(js)})
		minimal[sig] = b
	}
	minMu.Unlock()
}

func one(js []byte) {
	var t Trans
	if err := json.Unmarshal(js, &t); err != nil {
		rep.Div("harness", "cannot parse transition: "+err.Error(), js, nil)
		return
	}
	atomic.AddInt64(&rep.N, 1)
	if atomic.LoadInt64(&machTrouble) >= 8 || atomic.LoadInt64(&nDivergent) >= 300 {
		// the real objects no longer hand off the way the driver expects (each such transition costs a 20 s timeout), or 300
		// transitions have diverged already (their worlds are abandoned, not wound down): the remaining transitions are not
		// replayed; what was observed so far is reported
		atomic.AddInt64(&skippedAfterTrouble, 1)
		return
	}
	for try := 0; ; try++ {
		again, fatal, diverged := attempt(&t, js)
		if diverged {
			atomic.AddInt64(&nDivergent, 1)
		}
		if fatal != "" {
			atomic.AddInt64(&machTrouble, 1)
			rep.Div("harness", fatal, js, nil)
			return
		}
		if !again {
			break
		}
		atomic.AddInt64(&retries, 1)
		if try >= maxTries {
			rep.Div("harness", "could not obtain the map iteration order chosen by the model", js, nil)
			return
		}
	}
	minMu.Lock()
	opCount[t.Op.Op]++
	minMu.Unlock()
	if len(t.Pre) > 0 {
		atomic.AddInt64(&rep.NonTriv, 1)
	}
	rep.Sample(js, 3)
}

func attempt(t *Trans, js []byte) (again bool, fatal string, diverged bool) {
	w := newWorld()
	// a world that has left the specification is abandoned (its goroutines are parked at hand-off points the orderly
	// wind-down would wait for in vain)
	defer func() {
		if diverged {
			w.B.VerifStop()
		} else {
			w.cleanup()
		}
	}()
	div := func(sig, what string, extra map[string]interface{}) {
		if sig != "harness" && !strings.HasPrefix(sig, "C16:") {
			diverged = true // model and code disagree (a clause violated on conforming objects is not that)
		}
		rep.Div(sig, what, js, extra)
	}
	defer func() {
		if r := recover(); r != nil {
			switch x := r.(type) {
			case retry:
				again = true
			case machErr:
				fatal = x.s
			default:
				div("panic:"+t.Op.Op, fmt.Sprintf("panic while replaying: %v", r), nil)
			}
		}
	}()
	for i, op := range t.Pre {
		if msg := w.apply(op); msg != "" {
			// every prefix is itself a transition that is checked on its own line; here it is only a path
			div("pre:"+op.Op, fmt.Sprintf("step %d (%s) of the prefix: %s", i, op.Op, msg), nil)
			return
		}
	}
	if msg := w.apply(t.Op); msg != "" {
		div("op:"+t.Op.Op, t.Op.Op+": "+msg, nil)
		return
	}
	real, extra := w.realState()
	lt := extra["localTopics"].(map[string]uint64)
	if diffs := compare(real, lt, t.St); len(diffs) > 0 {
		comp := strings.SplitN(diffs[0], ":", 2)[0]
		div("state:"+t.Op.Op+":"+comp, fmt.Sprintf("after %s the real objects differ from the specification: %s", t.Op.Op, strings.Join(diffs, "; ")), nil)
		return
	}
	if len(t.Bad) > 0 {
		atomic.AddInt64(&badSeen, 1)
		rb := realBad(real, lt)
		taint := "none"
		if len(t.Taint) > 0 {
			taint = strings.Join(sortedCopy(t.Taint), "+")
		}
		for _, b := range t.Bad {
			obs, ok := rb[b]
			if !ok {
				div("harness", "the model reports "+b+" violated, the evaluation on the real objects does not", nil)
				continue
			}
			// tainted = the history contains the trigger of a recorded finding: the signature names the trigger(s);
			// an untainted violation is named after the clause
			sig := "C16:" + taint
			if taint == "none" {
				sig = "C16:untainted:" + b
			}
			obs = b + ": " + obs
			noteMinimal(sig, obs, len(t.Pre), js)
			div(sig, obs, map[string]interface{}{"history_len": len(t.Pre) + 1, "taint": t.Taint})
		}
	} else if rb := realBad(real, lt); len(rb) > 0 {
		for k, v := range rb {
			div("harness", "real objects violate "+k+" but the model does not say so: "+v, nil)
		}
	}
	return
}

// probeHookRace runs the schedule of the FedEmit.tla counterexample on the real hook wrappers: client c1 drops the
// last reference to topic t (OnUnsubscribed: reference count updated, then - separately - the event is queued under
// memberMu) while client c2 subscribes to t (OnSubscribed: count updated, event queued).  If c2's two steps fall
// between c1's two steps the peer receives "subscribe t" and then "unsubscribe t" although t is subscribed locally.
// The window is forced open by holding memberMu while c1 runs its first step; who gets the mutex next is up to the
// Go runtime, hence the retries.  An observed inversion is an execution of the real code; none observed is no verdict.
func waitGone(w *world) bool {
	deadline := time.Now().Add(100 * time.Millisecond)
	for time.Now().Before(deadline) {
		if _, ok := w.A.VerifLocalTopics()["t"]; !ok {
			return true
		}
		runtime.Gosched()
	}
	return false
}

func probeHookRace(tries int, leaver string) {
	res := map[string]interface{}{"kind": "probe", "probe": "hookrace", "leaver": leaver, "reproduced": false, "tries": 0}
	for i := 1; i <= tries; i++ {
		res["tries"] = i
		w := newWorld()
		func() {
			defer w.cleanup()
			w.apply(Op{Op: "sub", C: "c1", T: "t"})
			w.A.VerifLockMembers()
			done := make(chan struct{})
			go func() { w.apply(Op{Op: leaver, C: "c1", T: "t"}); close(done) }()
			if !waitGone(w) {
				// the hook does not get past memberMu before it touches the reference count: no window (repaired code)
				res["window"] = "closed"
				w.A.VerifUnlockMembers()
				<-done
				return
			}
			time.Sleep(2 * time.Millisecond) // c1's hook is now waiting for memberMu
			w.A.VerifUnlockMembers()
			w.apply(Op{Op: "sub", C: "c2", T: "t"})
			<-done
			var order []string
			for _, e := range w.peer.Queue().Events {
				order = append(order, evOf(e).K)
			}
			if len(order) == 3 && order[1] == "sub" && order[2] == "unsub" {
				res["reproduced"] = true
				res["queued"] = order
				res["local"] = w.A.VerifLocalTopics()
			}
		}()
		if res["reproduced"].(bool) || res["window"] != nil {
			break
		}
	}
	if res["reproduced"].(bool) {
		// second part: same schedule with the stream already up, then let the stream drain and read B's view
		for i := 1; i <= tries; i++ {
			w := newWorld()
			ok := false
			func() {
				defer w.cleanup()
				if m := w.apply(Op{Op: "hello", Mode: "ok", Clean: true, Next: 0}); m != "" {
					return
				}
				w.apply(Op{Op: "sub", C: "c1", T: "t"})
				w.A.VerifLockMembers()
				done := make(chan struct{})
				go func() { w.apply(Op{Op: leaver, C: "c1", T: "t"}); close(done) }()
				if !waitGone(w) {
					w.A.VerifUnlockMembers()
					<-done
					return
				}
				time.Sleep(2 * time.Millisecond)
				w.A.VerifUnlockMembers()
				w.apply(Op{Op: "sub", C: "c2", T: "t"})
				<-done
				evs := w.peer.Queue().Events
				if !(len(evs) == 3 && evOf(evs[1]).K == "sub" && evOf(evs[2]).K == "unsub") {
					return
				}
				w.apply(Op{Op: "fetch", Sent: true})
				for id := 0; id < 3; id++ {
					for _, o := range []Op{{Op: "srvrecv", ID: id, Acked: true}, {Op: "srvnext", Which: "pend", ID: id}, {Op: "cliack", ID: id}} {
						if m := w.apply(o); m != "" {
							res["drain_error"] = m
							return
						}
					}
				}
				real, extra := w.realState()
				rb := realBad(real, extra["localTopics"].(map[string]uint64))
				if v, bad := rb["QuiescentView"]; bad {
					ok = true
					res["observed"] = v
				}
			}()
			if ok {
				break
			}
		}
	}
	b, _ := json.Marshal(res)
	fmt.Println(string(b))
}

// probeSpin: the EventStream goroutine is between Send(ack) and the nextEventID write when B's membership reports A as
// failed (sessionMgr.del closes the session); let it run on and watch what it does.  Not a clause of C16 (reported as
// an incidental finding): as coded it neither calls Recv again nor ends, it spins in `select { case <-done: }`.
func probeSpin() {
	w := newWorld()
	for _, o := range []Op{{Op: "hello", Mode: "ok", Clean: true}, {Op: "msg", P: 1}, {Op: "fetch", Sent: true}, {Op: "srvrecv", ID: 0, Acked: true}} {
		if m := w.apply(o); m != "" {
			fmt.Println(`{"kind":"probe","probe":"spin","error":"` + m + `"}`)
			return
		}
	}
	l := w.cur
	w.B.VerifInjectMemberEvent(serf.EventMemberFailed, "A")
	time.Sleep(20 * time.Millisecond) // EventStream's watcher goroutine sees the closed session and closes `done`
	var ru0, ru1 syscall.Rusage
	syscall.Getrusage(syscall.RUSAGE_SELF, &ru0)
	t0 := time.Now()
	select {
	case l.srvGateGo <- struct{}{}:
	case <-time.After(handoff):
		panic(machErr{"hand-off timeout: nobody takes `l.srvGateGo <- struct{}{}`"})
	}
	back := false
	select {
	case <-l.srvRecvAt:
		back = true
	case <-time.After(300 * time.Millisecond):
	}
	syscall.Getrusage(syscall.RUSAGE_SELF, &ru1)
	cpu := time.Duration(ru1.Utime.Nano()-ru0.Utime.Nano()) + time.Duration(ru1.Stime.Nano()-ru0.Stime.Nano())
	b, _ := json.Marshal(map[string]interface{}{"kind": "probe", "probe": "spin", "back_in_recv": back,
		"wall_ms": time.Since(t0).Milliseconds(), "cpu_ms": cpu.Milliseconds(), "spinning": !back && cpu > 200*time.Millisecond})
	fmt.Println(string(b))
}

// probeVariant finds out which of the proposed repairs the tree under test contains, by behaviour (three micro
// scenarios on the real objects).  The answer only selects the model variant (CONSTANT Fixes) the replay is compared
// with - "the model mirrors the code" - the replay itself then checks every transition against that variant.
func probeVariant() {
	fixes := []string{}
	// (a) is nextEventID written before the ack is sent?
	w := newWorld()
	for _, o := range []Op{{Op: "hello", Mode: "ok", Clean: true}, {Op: "msg", P: 1}, {Op: "fetch", Sent: true}, {Op: "srvrecv", ID: 0, Acked: true}} {
		if m := w.apply(o); m != "" {
			fmt.Println(`{"kind":"probe","probe":"variant","error":"` + m + `"}`)
			return
		}
	}
	if sv, ok := w.B.VerifSession("A"); ok && sv.NextEventID == 1 {
		fixes = append(fixes, "next_before_ack")
	}
	w.cleanup()
	// (b) does a second handshake on a session that never had a stream ask for a clean start again?
	w = newWorld()
	fc := &fakeClient{w: w, mode: "lost"}
	w.peer.InitStream(fc, sharedConn)
	fc2 := &fakeClient{w: w, mode: "lost"}
	w.peer.InitStream(fc2, sharedConn)
	if fc.resp != nil && fc2.resp != nil && fc.resp.CleanStart && fc2.resp.CleanStart {
		fixes = append(fixes, "unestablished_clean")
	}
	// (c) does a forwarded retained message with an empty payload remove the retained message on the receiver?
	ev := &fed.Event{Id: 0, Event: &fed.Event_Message{Message: &fed.Message{TopicName: "r", Retained: true, Qos: 1}}}
	if _, ok := w.B.VerifEventStreamHandler("A", ev); ok && w.bRet.GetRetainedMessage("r") == nil {
		fixes = append(fixes, "retained_clear_removes")
	}
	w.cleanup()
	b, _ := json.Marshal(map[string]interface{}{"kind": "probe", "probe": "variant", "fixes": fixes})
	fmt.Println(string(b))
}

func main() {
	workers := flag.Int("workers", 0, "")
	raw := flag.Bool("raw", false, "stdin lines are plain JSON (replay) instead of TLA+ string literals")
	flag.BoolVar(&autoNext, "autonext", false, "release the ack gate at once (model run with Fixes next_before_ack)")
	probe := flag.String("probe", "", "run a schedule probe instead of a replay: hookrace")
	tries := flag.Int("tries", 200, "")
	leaver := flag.String("leaver", "unsub", "hookrace: how c1 gives up the last reference: unsub (OnUnsubscribed) | term (OnSessionTerminated)")
	flag.Parse()
	var err error
	sharedConn, err = grpc.NewClient("passthrough:///verif-fake", grpc.WithTransportCredentials(insecure.NewCredentials()))
	if err != nil {
		fmt.Fprintln(os.Stderr, "grpc.NewClient:", err)
		os.Exit(2)
	}
	if *probe == "variant" {
		probeVariant()
		return
	}
	if *probe == "spin" {
		probeSpin()
		return
	}
	if *probe == "hookrace" {
		probeHookRace(*tries, *leaver)
		return
	}
	if err := tc.Each(os.Stdin, *workers, *raw, nil, one); err != nil {
		fmt.Fprintln(os.Stderr, err)
		os.Exit(2)
	}
	rep.Summary(map[string]interface{}{"retries": atomic.LoadInt64(&retries), "bad_states": atomic.LoadInt64(&badSeen), "skipped_after_trouble": atomic.LoadInt64(&skippedAfterTrouble),
		"minimal": minimal, "ops": opCount})
}
