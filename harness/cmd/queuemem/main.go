// queuemem replays every transition of the Queue model (TLC output on stdin) into the real session queue -
// persistence/queue/mem (-target mem) or persistence/queue/redis over the in-process RESP fake (-target redis;
// an Init is then issued on a new Queue object over the same key, -reinit new, or on the same object; with
// -reinit restart the object is replaced right after every Close, as a broker restart does) - and
// compares, through the public queue.Store API and a recording queue.Notifier only:
//
//	(a) what the operation returned,
//	(b) the Notifier calls it made (dropped element + reason, sums of the queue / in-flight deltas),
//	(c) the output of the probe sequence  Close; Init(not clean); ReadInflight until empty; Read while the
//	    model says something is unread  -  predicted by the model from the post-state.
//
// The oracle is the specification: every expected value is taken from the TLC line.  A Read that the model says
// would block is never issued (the model does not generate it); every real call runs under a watchdog; a Read that
// blocks although the model says it returns is a divergence (Close unblocks it); panics are divergences.
package main

import (
	"encoding/binary"
	"encoding/json"
	"flag"
	"fmt"
	"os"
	"strconv"
	"strings"
	"sync"
	"sync/atomic"
	"time"

	"github.com/DrmagicE/gmqtt"
	"github.com/DrmagicE/gmqtt/persistence/queue"
	"github.com/DrmagicE/gmqtt/persistence/queue/mem"
	redisqueue "github.com/DrmagicE/gmqtt/persistence/queue/redis"
	"github.com/DrmagicE/gmqtt/pkg/packets"
	redigo "github.com/gomodule/redigo/redis"

	"verifharness/resp"
	"verifharness/tc"
)

// ---------------------------------------------------------------- model side

type RetE struct {
	M    int    `json:"m"`
	Kind string `json:"kind"`
	Qos  int    `json:"qos"`
	Pid  int    `json:"pid"`
	Exp  string `json:"exp"`
}

type DropE struct {
	M    int    `json:"m"`
	Kind string `json:"kind"`
	Pid  int    `json:"pid"`
	Why  string `json:"why"`
}

type Out struct {
	Ret  []RetE  `json:"ret"`
	Drop []DropE `json:"drop"`
	DQ   int     `json:"dQ"`
	DI   int     `json:"dI"`
	Res  string  `json:"res"`
	Rm   int     `json:"rm"`
}

type Op struct {
	Op    string `json:"op"`
	M     int    `json:"m"`
	Qos   int    `json:"qos"`
	Exp   string `json:"exp"`
	Big   bool   `json:"big"`
	Ids   []int  `json:"ids"`
	N     int    `json:"n"`
	Pid   int    `json:"pid"`
	Clean bool   `json:"clean"`
	Out   *Out   `json:"out"`
	// rm of an in-flight entry that has not been replayed since the re-initialisation: the specification allows two
	// outcomes ("noop": ignored; "removed": the entry is gone); this transition follows the named one
	Early string `json:"early"`
}

type Post struct {
	Drained bool `json:"drained"`
	Closed  bool `json:"closed"`
	Cur     int  `json:"cur"`
	Q       []struct {
		Pid int `json:"pid"`
	} `json:"q"`
}

type Trans struct {
	Pre   []Op `json:"pre"`
	Op    Op   `json:"op"`
	Probe struct {
		Ri []Out `json:"ri"`
		Rd []Out `json:"rd"`
	} `json:"probe"`
	Post Post `json:"post"`
}

// ---------------------------------------------------------------- configuration

var (
	target    = flag.String("target", "mem", "mem | redis (persistence/queue/redis over the in-process RESP fake)")
	reinit    = flag.String("reinit", "new", "redis: Init is called on a `new` Queue object over the same key, on the `same` object, or `restart`: every Close is followed by a broker restart (new object, no Init until the next Init operation)")
	maxQ      = flag.Int("max", 2, "MaxQueuedMsg")
	ieMode    = flag.String("ie", "off", "inflight expiry: off | instant | never")
	probeN    = flag.Int("proben", 8, "maxSize of the probe's ReadInflight")
	probeIDs  = flag.Int("probeids", 8, "number of ids (101..) given to the probe's Read")
	watchdog  = flag.Duration("watchdog", time.Second, "per-call watchdog")
	slowdog   = flag.Duration("slowdog", 5*time.Second, "watchdog of the confirming re-execution")
	retExp    = flag.Bool("retexp", true, "compare the expiry class of returned elements (stamping)")
	workers   = flag.Int("workers", 8, "replaying goroutines")
	raw       = flag.Bool("raw", false, "stdin lines are plain JSON (replay) instead of TLA+ string literals")
	verbose   = flag.Bool("v", false, "print what every call returned (replay/debug)")
	rep       = tc.NewReporter()
	readLimit = uint32(100)
)

func ieDuration() time.Duration {
	switch *ieMode {
	case "instant":
		return time.Nanosecond
	case "never":
		return time.Hour
	}
	return 0
}

// ---------------------------------------------------------------- real side

type dropRec struct {
	m    int // tag, 0 for a PUBREL
	kind string
	pid  int
	why  string
}

type recorder struct {
	drops  []dropRec
	dQ, dI int
}

func (r *recorder) reset() { r.drops = r.drops[:0]; r.dQ, r.dI = 0, 0 }

func why(err error) string {
	switch err {
	case queue.ErrDropQueueFull:
		return "full"
	case queue.ErrDropExpired:
		return "expired"
	case queue.ErrDropExpiredInflight:
		return "expired_inflight"
	case queue.ErrDropExceedsMaxPacketSize:
		return "oversize"
	case nil:
		return "<nil>"
	}
	return "other:" + err.Error()
}

func (r *recorder) NotifyDropped(e *queue.Elem, err error) {
	m, kind, _, pid := ident(e)
	r.drops = append(r.drops, dropRec{m, kind, pid, why(err)})
}
func (r *recorder) NotifyInflightAdded(d int) { r.dI += d }
func (r *recorder) NotifyMsgQueueAdded(d int) { r.dQ += d }

// ident reads tag / kind / qos / id of an element through its public fields
func ident(e *queue.Elem) (m int, kind string, qos int, pid int) {
	if e == nil || e.MessageWithID == nil {
		return -1, "nil", 0, 0
	}
	switch v := e.MessageWithID.(type) {
	case *queue.Publish:
		s := string(v.Payload)
		if i := strings.IndexByte(s, '|'); i >= 0 {
			s = s[:i]
		}
		m, _ = strconv.Atoi(strings.TrimPrefix(s, "m"))
		return m, "pub", int(v.QoS), int(v.ID())
	case *queue.Pubrel:
		return 0, "rel", 2, int(v.ID())
	}
	return -1, "unknown", 0, 0
}

func expClass(e *queue.Elem) string {
	if e.Expiry.IsZero() {
		return "none"
	}
	if time.Now().After(e.Expiry) {
		return "past"
	}
	return "future"
}

type seenE struct {
	m    int
	kind string
	qos  int
	pid  int
	exp  string
}

// got is what one real call produced
type got struct {
	ret     []seenE
	res     string // ok | closed | true | false | err:<text>
	drops   []dropRec
	dQ, dI  int
	panicv  string
	blocked bool
}

// env is the back-end a redis queue talks to: one RESP fake + connection pool per replaying goroutine
type env struct {
	srv  *resp.Server
	pool *redigo.Pool
}

var (
	envs    chan *env
	nextCID int64
)

func newEnv() (*env, error) {
	srv, err := resp.NewServer()
	if err != nil {
		return nil, err
	}
	addr := srv.Addr()
	return &env{srv: srv, pool: &redigo.Pool{MaxIdle: 4, Dial: func() (redigo.Conn, error) { return redigo.Dial("tcp", addr) }}}, nil
}

type real struct {
	q     queue.Store
	rec   *recorder
	wd    time.Duration
	env   *env
	cid   string
	fresh func() (queue.Store, error) // a new Store object over the same backing data
}

// age makes the stored elements look `secs` seconds older than they are (redis target): the expiry of every stored
// element that has one is moved into the past by that much - as if the session had been offline for a while before it is
// re-initialised.  Stored expiries have a resolution of one second, so without this a re-initialisation right after the
// Close re-writes identical bytes and a stale copy of them is indistinguishable from a fresh one.  (Neutral for the
// abstraction of Queue.tla: "future" stays future - an hour away -, "past" stays past, "none" is not touched.)
func (r *real) age(secs int64) {
	if r.env == nil {
		return
	}
	c := r.env.pool.Get()
	defer c.Close()
	key := "queue:" + r.cid
	vs, err := redigo.ByteSlices(c.Do("LRANGE", key, 0, -1))
	if err != nil {
		return
	}
	for i, b := range vs {
		if len(b) < 19 {
			continue
		}
		v := int64(binary.BigEndian.Uint64(b[9:17]))
		if v < 1000000000 { // no expiry (the zero time), or nothing sensible
			continue
		}
		nb := append([]byte(nil), b...)
		binary.BigEndian.PutUint64(nb[9:17], uint64(v-secs))
		c.Do("LSET", key, i, nb)
	}
}

func (r *real) release() {
	if r.q != nil {
		r.q.Close()
	}
	if r.env != nil {
		if r.q != nil {
			r.q.Clean() // DEL the key: the fake is reused by later transitions
		}
		envs <- r.env
		r.env = nil
	}
}

// newReal = New + Init(clean), the way the broker creates a session queue.  slow reports that the watchdog fired.
func newReal(wd time.Duration) (r *real, slow bool, err error) {
	rec := &recorder{}
	r = &real{rec: rec, wd: wd}
	switch *target {
	case "mem":
		r.fresh = func() (queue.Store, error) {
			return mem.New(mem.Options{MaxQueuedMsg: *maxQ, InflightExpiry: ieDuration(), ClientID: "c", DefaultNotifier: rec})
		}
	case "redis":
		r.env = <-envs
		r.cid = "c" + strconv.FormatInt(atomic.AddInt64(&nextCID, 1), 10)
		pool, cid := r.env.pool, r.cid
		r.fresh = func() (queue.Store, error) {
			return redisqueue.New(redisqueue.Options{MaxQueuedMsg: *maxQ, InflightExpiry: ieDuration(), ClientID: cid, Pool: pool, DefaultNotifier: rec})
		}
	}
	q, err := r.fresh()
	if err != nil {
		r.release()
		return nil, false, err
	}
	r.q = q
	g := r.call(func() ([]*queue.Elem, string) { return nil, errRes(q.Init(r.initOpts(true))) })
	if g.blocked {
		r.release()
		return nil, true, nil
	}
	if g.panicv != "" || g.res != "ok" {
		r.release()
		return nil, false, fmt.Errorf("New+Init(clean) failed: %+v", g)
	}
	return r, false, nil
}

func (r *real) initOpts(clean bool) *queue.InitOptions {
	return &queue.InitOptions{CleanStart: clean, Version: packets.Version5, ReadBytesLimit: readLimit, Notifier: r.rec}
}

func errRes(err error) string {
	if err == nil {
		return "ok"
	}
	if err == queue.ErrClosed {
		return "closed"
	}
	return "err:" + err.Error()
}

// call runs f under the watchdog, recovering panics; Notifier calls made meanwhile are collected.
func (r *real) call(f func() ([]*queue.Elem, string)) got {
	r.rec.reset()
	type res struct {
		elems  []*queue.Elem
		res    string
		panicv string
	}
	ch := make(chan res, 1)
	go func() {
		defer func() {
			if p := recover(); p != nil {
				ch <- res{panicv: fmt.Sprint(p)}
			}
		}()
		e, s := f()
		ch <- res{elems: e, res: s}
	}()
	var x res
	blocked := false
	t := time.NewTimer(r.wd)
	select {
	case x = <-ch:
		t.Stop()
	case <-t.C:
		blocked = true
		r.q.Close() // the interface promises that Close unblocks Read
		select {
		case x = <-ch:
		case <-time.After(r.wd):
			x = res{res: "err:still blocked after Close"}
		}
	}
	if *ieMode == "instant" {
		// a 1 ns in-flight expiry must have passed before anything looks at it
		for t0 := time.Now(); time.Since(t0) < 2*time.Microsecond; {
		}
	}
	g := got{res: x.res, panicv: x.panicv, blocked: blocked, dQ: r.rec.dQ, dI: r.rec.dI}
	g.drops = append(g.drops, r.rec.drops...)
	for _, e := range x.elems {
		m, k, qos, pid := ident(e)
		ex := ""
		if e != nil {
			ex = expClass(e)
		}
		g.ret = append(g.ret, seenE{m, k, qos, pid, ex})
	}
	return g
}

func mkElem(op *Op) *queue.Elem {
	now := time.Now()
	payload := "m" + strconv.Itoa(op.M)
	if op.Big {
		payload += "|" + strings.Repeat("x", 3*int(readLimit))
	}
	var exp time.Time
	switch op.Exp {
	case "past":
		exp = now.Add(-24 * time.Hour)
	case "future":
		exp = now.Add(24 * time.Hour)
	}
	return &queue.Elem{At: now, Expiry: exp, MessageWithID: &queue.Publish{Message: &gmqtt.Message{
		QoS: uint8(op.Qos), Topic: "t", Payload: []byte(payload)}}}
}

func pids(ids []int) []packets.PacketID {
	p := make([]packets.PacketID, len(ids))
	for i, v := range ids {
		p[i] = packets.PacketID(v)
	}
	return p
}

func (r *real) apply(op *Op) got {
	q := r.q
	switch op.Op {
	case "add":
		e := mkElem(op)
		return r.call(func() ([]*queue.Elem, string) { return nil, errRes(q.Add(e)) })
	case "read":
		ids := pids(op.Ids)
		return r.call(func() ([]*queue.Elem, string) { es, err := q.Read(ids); return es, errRes(err) })
	case "ri":
		return r.call(func() ([]*queue.Elem, string) { es, err := q.ReadInflight(uint(op.N)); return es, errRes(err) })
	case "rm":
		return r.call(func() ([]*queue.Elem, string) { return nil, errRes(q.Remove(packets.PacketID(op.Pid))) })
	case "rep":
		e := &queue.Elem{At: time.Now(), MessageWithID: &queue.Pubrel{PacketID: packets.PacketID(op.Pid)}}
		return r.call(func() ([]*queue.Elem, string) {
			ok, err := q.Replace(e)
			if err != nil {
				return nil, errRes(err)
			}
			return nil, strconv.FormatBool(ok)
		})
	case "init":
		if *target == "redis" && *reinit == "new" {
			// a new connection after a restart: a new Queue object over the same key
			nq, err := r.fresh()
			if err != nil {
				return got{res: "err:" + err.Error()}
			}
			r.q, q = nq, nq
		}
		if *target == "redis" && !op.Clean {
			r.age(5)
		}
		return r.call(func() ([]*queue.Elem, string) { return nil, errRes(q.Init(r.initOpts(op.Clean))) })
	case "close":
		g := r.call(func() ([]*queue.Elem, string) { return nil, errRes(q.Close()) })
		if *target == "redis" && *reinit == "restart" {
			// the broker restarts while the session is offline: server.New creates a Queue object over the stored key
			// (no Init until the client reconnects); messages for the offline session are added to that object
			if nq, err := r.fresh(); err == nil {
				r.q = nq
			} else {
				g.res = "err:" + err.Error()
			}
		}
		return g
	}
	return got{res: "err:unknown op " + op.Op}
}

// ---------------------------------------------------------------- comparison

func opName(op *Op) string {
	if op.Op == "init" {
		if op.Clean {
			return "init-clean"
		}
		return "init-resume"
	}
	return op.Op
}

func panicClass(s string) string {
	switch {
	case strings.Contains(s, "interface conversion"):
		return "interface-conversion"
	case strings.Contains(s, "must call ReadInflight"):
		return "read-before-drained"
	case strings.Contains(s, "nil pointer"):
		return "nil-pointer"
	case strings.Contains(s, "index out of range"):
		return "index-out-of-range"
	}
	return "other"
}

func fmtRet(rs []seenE) string {
	var b []string
	for _, r := range rs {
		if r.kind == "pub" {
			b = append(b, fmt.Sprintf("m%d/qos%d/id%d", r.m, r.qos, r.pid))
		} else {
			b = append(b, fmt.Sprintf("%s/id%d", r.kind, r.pid))
		}
	}
	return "[" + strings.Join(b, " ") + "]"
}

func fmtExpRet(rs []RetE) string {
	var b []string
	for _, r := range rs {
		if r.Kind == "pub" {
			b = append(b, fmt.Sprintf("m%d/qos%d/id%d", r.M, r.Qos, r.Pid))
		} else {
			b = append(b, fmt.Sprintf("%s/id%d", r.Kind, r.Pid))
		}
	}
	return "[" + strings.Join(b, " ") + "]"
}

// victim class of a dropped element relative to the operation (for signatures)
func victimClass(op *Op, m int, kind string, pid int, why string) string {
	c := "queued"
	if kind == "rel" {
		c = "inflight-pubrel"
	} else if pid != 0 {
		c = "inflight"
	} else if op != nil && op.Op == "add" && m == op.M {
		c = "newcomer"
	}
	return c + "/" + why
}

func dropsSigGot(op *Op, ds []dropRec) string {
	if len(ds) == 0 {
		return "none"
	}
	var b []string
	for _, d := range ds {
		b = append(b, victimClass(op, d.m, d.kind, d.pid, d.why))
	}
	return strings.Join(b, "+")
}

func dropsSigExp(op *Op, ds []DropE) string {
	if len(ds) == 0 {
		return "none"
	}
	var b []string
	for _, d := range ds {
		b = append(b, victimClass(op, d.M, d.Kind, d.Pid, d.Why))
	}
	return strings.Join(b, "+")
}

func fmtDropsGot(ds []dropRec) string {
	var b []string
	for _, d := range ds {
		if d.kind == "pub" {
			b = append(b, fmt.Sprintf("m%d/id%d:%s", d.m, d.pid, d.why))
		} else {
			b = append(b, fmt.Sprintf("%s/id%d:%s", d.kind, d.pid, d.why))
		}
	}
	return "[" + strings.Join(b, " ") + "]"
}

func fmtDropsExp(ds []DropE) string {
	var b []string
	for _, d := range ds {
		if d.Kind == "pub" {
			b = append(b, fmt.Sprintf("m%d/id%d:%s", d.M, d.Pid, d.Why))
		} else {
			b = append(b, fmt.Sprintf("%s/id%d:%s", d.Kind, d.Pid, d.Why))
		}
	}
	return "[" + strings.Join(b, " ") + "]"
}

type diff struct {
	sig, what string
	hard      bool // the real object's state can no longer be trusted to follow the model (taints later steps)
}

// compare one real call with the model's prediction.  ctx is a prefix for the signature ("" for the operation
// itself, "probe:after-<op>:ri" ... for probe calls); ctxState qualifies Add signatures.
func compare(ctx string, op *Op, exp *Out, g *got, qual string) []diff {
	name := opName(op)
	pfx := name
	if ctx != "" {
		pfx = ctx
	}
	var ds []diff
	if g.panicv != "" {
		return []diff{{"panic:" + pfx + ":" + panicClass(g.panicv) + qual, fmt.Sprintf("%s panicked: %s", describe(op), g.panicv), true}}
	}
	if g.blocked {
		return []diff{{"blocked:" + pfx + qual, fmt.Sprintf("%s blocked (watchdog %v; released by Close, result %s) although the specification says it returns %s",
			describe(op), *watchdog, g.res, fmtExpRet(exp.Ret)), true}}
	}
	if g.res != exp.Res {
		ds = append(ds, diff{"result:" + pfx + ":want=" + exp.Res + ",got=" + resClass(g.res) + qual,
			fmt.Sprintf("%s returned %q, specification says %q", describe(op), g.res, exp.Res), true})
	}
	// returned elements
	if c := retDiff(exp.Ret, g.ret); c != "" {
		ds = append(ds, diff{"ret:" + pfx + ":" + c + qual, fmt.Sprintf("%s returned %s, specification says %s", describe(op), fmtRet(g.ret), fmtExpRet(exp.Ret)), true})
	} else if *retExp {
		for i := range exp.Ret {
			if exp.Ret[i].Exp != g.ret[i].exp {
				ds = append(ds, diff{"ret-expiry:" + pfx + ":want=" + exp.Ret[i].Exp + ",got=" + g.ret[i].exp + qual,
					fmt.Sprintf("%s: returned element %d carries expiry class %q, specification says %q (in-flight expiry %s)", describe(op), i+1, g.ret[i].exp, exp.Ret[i].Exp, *ieMode), false})
				break
			}
		}
	}
	// Notifier: dropped elements with reasons
	if !sameDrops(exp.Drop, g.drops) {
		w, h := dropsSigExp(op, exp.Drop), dropsSigGot(op, g.drops)
		if w == h {
			h += "(another element)"
		}
		ds = append(ds, diff{"drop:" + pfx + ":want=" + w + ",got=" + h + qual,
			fmt.Sprintf("%s: Notifier was told dropped %s, specification says %s", describe(op), fmtDropsGot(g.drops), fmtDropsExp(exp.Drop)), true})
	}
	// Notifier: sums of the deltas (only when everything else agreed: otherwise they merely echo the difference above)
	if len(ds) == 0 && (exp.DQ != g.dQ || exp.DI != g.dI) {
		ds = append(ds, diff{fmt.Sprintf("delta:%s:queue=%s,inflight=%s%s", pfx, dir(g.dQ, exp.DQ), dir(g.dI, exp.DI), qual),
			fmt.Sprintf("%s: Notifier deltas summed to queue %+d / in-flight %+d, specification says %+d / %+d", describe(op), g.dQ, g.dI, exp.DQ, exp.DI), false})
	}
	return ds
}

func dir(got, want int) string {
	switch {
	case got > want:
		return "too-high"
	case got < want:
		return "too-low"
	}
	return "ok"
}

func resClass(s string) string {
	if strings.HasPrefix(s, "err:") {
		return "error"
	}
	return s
}

func retDiff(exp []RetE, g []seenE) string {
	if len(exp) != len(g) {
		if len(g) > len(exp) {
			return "too-many"
		}
		return "too-few"
	}
	for i := range exp {
		e, r := exp[i], g[i]
		if e.Kind != r.kind {
			return "kind"
		}
		if e.Kind == "pub" && e.M != r.m {
			return "message"
		}
		if e.Pid != r.pid {
			return "id"
		}
		if e.Kind == "pub" && e.Qos != r.qos {
			return "qos"
		}
	}
	return ""
}

func sameDrops(exp []DropE, g []dropRec) bool {
	if len(exp) != len(g) {
		return false
	}
	for i := range exp {
		e, r := exp[i], g[i]
		if e.Kind != r.kind || e.Pid != r.pid || e.Why != r.why {
			return false
		}
		if e.Kind == "pub" && e.M != r.m {
			return false
		}
	}
	return true
}

func describe(op *Op) string {
	switch op.Op {
	case "add":
		s := fmt.Sprintf("Add(m%d qos%d expiry=%s", op.M, op.Qos, op.Exp)
		if op.Big {
			s += " oversize"
		}
		return s + ")"
	case "read":
		return fmt.Sprintf("Read(%v)", op.Ids)
	case "ri":
		return fmt.Sprintf("ReadInflight(%d)", op.N)
	case "rm":
		return fmt.Sprintf("Remove(%d)", op.Pid)
	case "rep":
		return fmt.Sprintf("Replace(PUBREL %d)", op.Pid)
	case "init":
		return fmt.Sprintf("Init(clean=%v)", op.Clean)
	case "close":
		return "Close()"
	}
	return op.Op
}

func history(t *Trans) string {
	var b []string
	for i := range t.Pre {
		b = append(b, describe(&t.Pre[i]))
	}
	b = append(b, describe(&t.Op))
	return strings.Join(b, "; ")
}

// ---------------------------------------------------------------- one transition

type outcome struct {
	tainted bool
	branch  bool // the implementation took the other allowed outcome of an early Remove: this transition does not apply
	diffs   []diff
	absence bool // a watchdog fired somewhere: confirm by a slow re-execution
	trace   []string
}

// otherBranch: the implementation took the other allowed outcome of an early Remove (see Op.Early)
func otherBranch(op *Op, g *got) bool {
	if op.Early == "" || g.panicv != "" || g.blocked || len(g.ret) != 0 || len(g.drops) != 0 {
		return false
	}
	if op.Early == "noop" {
		return g.dQ == -1 && g.dI == -1
	}
	return g.dQ == 0 && g.dI == 0
}

var nBranch int64

func run(t *Trans, wd time.Duration) (o outcome) {
	r, slow, err := newReal(wd)
	if slow {
		o.absence = true
		return
	}
	if err != nil {
		o.diffs = append(o.diffs, diff{"harness:new", err.Error(), true})
		return
	}
	defer r.release()
	note := func(op *Op, g *got) {
		if *verbose {
			o.trace = append(o.trace, fmt.Sprintf("%s -> res=%s ret=%s drops=%s dQ=%+d dI=%+d panic=%q blocked=%v", describe(op), g.res, fmtRet(g.ret), fmtDropsGot(g.drops), g.dQ, g.dI, g.panicv, g.blocked))
		}
	}
	for i := range t.Pre {
		op := &t.Pre[i]
		g := r.apply(op)
		note(op, &g)
		if g.blocked {
			o.absence = true
		}
		if otherBranch(op, &g) {
			o.branch = true
			return
		}
		if op.Out != nil {
			for _, d := range compare("", op, op.Out, &g, "") {
				if d.hard {
					o.tainted = true // reported by the transition whose operation this is
					return
				}
			}
		}
	}
	qual := ""
	if t.Op.Op == "add" {
		qual = "@not-yet-drained"
		if t.Post.Drained {
			qual = "@drained"
		}
	}
	g := r.apply(&t.Op)
	note(&t.Op, &g)
	if g.blocked {
		o.absence = true
	}
	if otherBranch(&t.Op, &g) {
		o.branch = true
		return
	}
	ds := compare("", &t.Op, t.Op.Out, &g, qual)
	o.diffs = append(o.diffs, ds...)
	for _, d := range ds {
		if d.hard {
			return // the probe would only echo this
		}
	}
	// probe: Close; Init(not clean); ReadInflight until it returns nothing; Read while the model says something is unread
	after := "probe:after-" + opName(&t.Op)
	stepc := func(stage string, op *Op, exp *Out) bool {
		g := r.apply(op)
		note(op, &g)
		if g.blocked {
			o.absence = true
		}
		ds := compare(after+":"+stage, op, exp, &g, qual)
		for i := range ds {
			ds[i].what = "after the operation, probe step " + ds[i].what
		}
		o.diffs = append(o.diffs, ds...)
		for _, d := range ds {
			if d.hard {
				return false
			}
		}
		return true
	}
	quiet := &Out{Res: "ok"}
	if !stepc("close", &Op{Op: "close"}, quiet) {
		return
	}
	if !stepc("init", &Op{Op: "init", Clean: false}, quiet) {
		return
	}
	for i := range t.Probe.Ri {
		if !stepc("replay", &Op{Op: "ri", N: *probeN}, &t.Probe.Ri[i]) {
			return
		}
	}
	ids := make([]int, *probeIDs)
	for i := range ids {
		ids[i] = 101 + i
	}
	for i := range t.Probe.Rd {
		if !stepc("read", &Op{Op: "read", Ids: ids}, &t.Probe.Rd[i]) {
			return
		}
	}
	return
}

var nTainted, nAbsenceRetry, nUnconfirmed, nBlocked int64

var (
	confMu    sync.Mutex
	confirmed = map[string]int{} // blocked:* signatures confirmed by a slow re-execution
)

func blockedSigs(o *outcome) (sigs []string) {
	for _, d := range o.diffs {
		if strings.HasPrefix(d.sig, "blocked:") {
			sigs = append(sigs, d.sig)
		}
	}
	return
}

func allConfirmed(sigs []string) bool {
	confMu.Lock()
	defer confMu.Unlock()
	for _, s := range sigs {
		if confirmed[s] < 3 {
			return false
		}
	}
	return len(sigs) > 0
}

func one(js []byte) {
	var t Trans
	if err := json.Unmarshal(js, &t); err != nil {
		rep.Div("harness", "cannot parse transition: "+err.Error(), js, nil)
		return
	}
	atomic.AddInt64(&rep.N, 1)
	if len(t.Pre) > 0 {
		atomic.AddInt64(&rep.NonTriv, 1)
	}
	wd := *watchdog
	if atomic.LoadInt64(&nBlocked) >= 100 {
		wd /= 4 // blocking calls are an established fact of this run: do not spend the budget waiting for them
	}
	o := run(&t, wd)
	if o.absence {
		// absence-type observation (a call did not return in time): only believed if it repeats with a long watchdog;
		// once the same signature has been confirmed three times and 60 re-executions were spent, it is taken as is
		if atomic.LoadInt64(&nAbsenceRetry) < 60 || (!o.tainted && !allConfirmed(blockedSigs(&o))) {
			atomic.AddInt64(&nAbsenceRetry, 1)
			o2 := run(&t, *slowdog)
			if !o2.absence {
				atomic.AddInt64(&nUnconfirmed, 1)
			}
			confMu.Lock()
			for _, s := range blockedSigs(&o2) {
				confirmed[s]++
			}
			confMu.Unlock()
			o = o2
		}
		if len(blockedSigs(&o)) > 0 {
			atomic.AddInt64(&nBlocked, 1)
		}
	}
	if *verbose {
		for _, l := range o.trace {
			fmt.Fprintln(os.Stderr, "  ", l)
		}
	}
	if o.tainted {
		atomic.AddInt64(&nTainted, 1)
		return
	}
	if o.branch {
		atomic.AddInt64(&nBranch, 1)
		return
	}
	if o.absence && len(o.diffs) == 0 {
		rep.Div("harness:watchdog", "a call did not return within the long watchdog and nothing explains it", js, map[string]interface{}{"history": history(&t), "steps": len(t.Pre) + 1})
		return
	}
	rep.Count("op:"+opName(&t.Op), 1)
	for _, d := range o.diffs {
		rep.Div(d.sig, d.what+"   [history: "+history(&t)+"]", js, map[string]interface{}{"history": history(&t), "steps": len(t.Pre) + 1})
	}
	if len(o.diffs) == 0 {
		rep.Sample(js, 2)
	}
}

func main() {
	flag.Parse()
	switch *ieMode {
	case "off", "instant", "never":
	default:
		fmt.Fprintln(os.Stderr, "unknown -ie", *ieMode)
		os.Exit(2)
	}
	switch *target {
	case "mem":
	case "redis":
		if *workers <= 0 {
			*workers = 8
		}
		// a confirming re-execution takes a second env while the first is still held by nobody: one spare suffices
		envs = make(chan *env, *workers+1)
		for i := 0; i < *workers+1; i++ {
			e, err := newEnv()
			if err != nil {
				fmt.Fprintln(os.Stderr, "cannot start the RESP fake:", err)
				os.Exit(2)
			}
			envs <- e
		}
	default:
		fmt.Fprintln(os.Stderr, "unknown -target", *target)
		os.Exit(2)
	}
	if err := tc.Each(os.Stdin, *workers, *raw, nil, one); err != nil {
		fmt.Fprintln(os.Stderr, err)
		os.Exit(2)
	}
	rep.Summary(map[string]interface{}{"tainted_prefix": atomic.LoadInt64(&nTainted), "other_branch": atomic.LoadInt64(&nBranch), "watchdog_retries": atomic.LoadInt64(&nAbsenceRetry),
		"timing_unconfirmed": atomic.LoadInt64(&nUnconfirmed), "max": *maxQ, "ie": *ieMode, "target": *target, "reinit": *reinit})
}
