// respfake replays every transition of the RespCmds model (TLC output on stdin) into the RESP fake through a
// real redigo connection and compares reply, Snapshot(), journal and NewServerFromJournal with what the
// specification predicts. Hygiene check of the trusted base (the fake), not a property of gmqtt.
// Oracle = the specification: expected replies, states and the MATCH table are printed by TLC.
package main

import (
	"bytes"
	"encoding/json"
	"flag"
	"fmt"
	"os"
	"reflect"
	"sort"
	"strconv"
	"sync/atomic"

	redigo "github.com/gomodule/redigo/redis"

	"verifharness/resp"
	"verifharness/tc"
)

type Reply struct {
	T string          `json:"t"`
	V json.RawMessage `json:"v"`
}

type Cmd struct {
	C string            `json:"c"`
	A []json.RawMessage `json:"a"`
	W bool              `json:"w"`
}

type Val struct {
	T string          `json:"t"`
	V json.RawMessage `json:"v"`
}

type Trans struct {
	Pre []Cmd `json:"pre"`
	Op  struct {
		Cmd   Cmd   `json:"cmd"`
		Reply Reply `json:"reply"`
		W     bool  `json:"w"`
	} `json:"op"`
	Db map[string]Val `json:"db"`
}

var (
	rep     = tc.NewReporter()
	rebuild = flag.Bool("rebuild", true, "also rebuild a server from the journal after every write transition")
)

// ------------------------------------------------------------------ one fake + one connection per worker

type wctx struct {
	srv  *resp.Server
	conn redigo.Conn
	used int
}

var pool chan *wctx

func (w *wctx) open() error {
	srv, err := resp.NewServer()
	if err != nil {
		return err
	}
	c, err := redigo.Dial("tcp", srv.Addr())
	if err != nil {
		srv.Close()
		return err
	}
	if _, err := c.Do("SELECT", 0); err != nil {
		return err
	}
	w.srv, w.conn, w.used = srv, c, 0
	return nil
}

func (w *wctx) close() {
	if w.conn != nil {
		w.conn.Close()
		w.srv.Close()
		w.conn, w.srv = nil, nil
	}
}

// fresh prepares an empty store: a new fake every 1000 transitions, otherwise a FLUSHDB is queued in front of
// the pipelined prefix (pending = 1). That FLUSHDB really empties the store is verified by every transition's
// final comparison of Snapshot() with the model state (a leftover key would show up there).
func (w *wctx) fresh() (pending int, err error) {
	if w.conn == nil || w.used >= 1000 || w.conn.Err() != nil {
		w.close()
		return 0, w.open()
	}
	w.used++
	return 1, w.conn.Send("FLUSHDB")
}

// ------------------------------------------------------------------ commands

func argOf(r json.RawMessage) (interface{}, string, error) {
	if len(r) > 0 && r[0] == '"' {
		var s string
		err := json.Unmarshal(r, &s)
		return s, s, err
	}
	var n int64
	err := json.Unmarshal(r, &n)
	return n, strconv.FormatInt(n, 10), err
}

// wire returns the redigo arguments of a model command and the words the journal must show.
func wire(c Cmd) (name string, args []interface{}, words []string, err error) {
	words = []string{c.C}
	if c.C == "SCAN" { // a = <<pattern, count>>; the cursor loop is driven by the caller
		return c.C, nil, nil, nil
	}
	for _, r := range c.A {
		v, w, e := argOf(r)
		if e != nil {
			return "", nil, nil, e
		}
		args = append(args, v)
		words = append(words, w)
	}
	return c.C, args, words, nil
}

func scanAll(conn redigo.Conn, pattern string, count int64) ([]string, error) {
	var out []string
	cursor := "0"
	for i := 0; i < 1000; i++ {
		rs, err := redigo.Values(conn.Do("SCAN", cursor, "MATCH", pattern, "COUNT", count))
		if err != nil {
			return nil, err
		}
		if len(rs) != 2 {
			return nil, fmt.Errorf("SCAN reply has %d elements", len(rs))
		}
		cb, ok := rs[0].([]byte)
		ks, err := redigo.Strings(rs[1], nil)
		if !ok || err != nil {
			return nil, fmt.Errorf("SCAN reply malformed: %v", rs)
		}
		out = append(out, ks...)
		cursor = string(cb)
		if cursor == "0" {
			return out, nil
		}
	}
	return nil, fmt.Errorf("SCAN did not return cursor 0 within 1000 calls")
}

func show(v interface{}) string {
	switch x := v.(type) {
	case nil:
		return "nil"
	case []byte:
		return strconv.Quote(string(x))
	case redigo.Error:
		return "-" + string(x)
	case []interface{}:
		var b bytes.Buffer
		b.WriteByte('[')
		for i, e := range x {
			if i > 0 {
				b.WriteByte(' ')
			}
			b.WriteString(show(e))
		}
		b.WriteByte(']')
		return b.String()
	}
	return fmt.Sprintf("%v", v)
}

func strs(raw json.RawMessage) ([]string, error) {
	var xs []string
	err := json.Unmarshal(raw, &xs)
	return xs, err
}

func sameSet(a, b []string) bool {
	a, b = append([]string(nil), a...), append([]string(nil), b...)
	sort.Strings(a)
	sort.Strings(b)
	return reflect.DeepEqual(a, b) || (len(a) == 0 && len(b) == 0)
}

// hashOf reads a model hash: a JSON object, or [] for the empty function.
func hashOf(raw json.RawMessage) (map[string]string, error) {
	m := map[string]string{}
	if len(raw) == 0 || raw[0] == '[' {
		return m, nil
	}
	err := json.Unmarshal(raw, &m)
	return m, err
}

// match compares a wire reply (as redigo returns it; error replies as redigo.Error) with the model's.
func match(exp Reply, got interface{}) bool {
	switch exp.T {
	case "int":
		var n int64
		json.Unmarshal(exp.V, &n)
		g, ok := got.(int64)
		return ok && g == n
	case "ok":
		g, ok := got.(string)
		return ok && g == "OK"
	case "status":
		var s string
		json.Unmarshal(exp.V, &s)
		g, ok := got.(string)
		return ok && g == s
	case "nil":
		return got == nil
	case "bulk":
		var s string
		json.Unmarshal(exp.V, &s)
		g, ok := got.([]byte)
		return ok && string(g) == s
	case "err":
		var s string
		json.Unmarshal(exp.V, &s)
		g, ok := got.(redigo.Error)
		return ok && string(g) == s
	case "arr":
		var es []Reply
		if json.Unmarshal(exp.V, &es) != nil {
			return false
		}
		g, ok := got.([]interface{})
		if !ok || len(g) != len(es) {
			return false
		}
		for i := range es {
			if !match(es[i], g[i]) {
				return false
			}
		}
		return true
	case "map":
		want, err := hashOf(exp.V)
		g, ok := got.([]interface{})
		if err != nil || !ok || len(g) != 2*len(want) {
			return false
		}
		for i := 0; i+1 < len(g); i += 2 {
			f, ok1 := g[i].([]byte)
			v, ok2 := g[i+1].([]byte)
			if w, ok := want[string(f)]; !ok1 || !ok2 || !ok || w != string(v) {
				return false
			}
			delete(want, string(f)) // a field must not be reported twice
		}
		return true
	case "set":
		want, err := strs(exp.V)
		g, ok := got.([]interface{})
		if err != nil || !ok || len(g) != len(want) {
			return false
		}
		var have []string
		for _, e := range g {
			b, ok := e.([]byte)
			if !ok {
				return false
			}
			have = append(have, string(b))
		}
		return sameSet(want, have)
	}
	return false
}

func do(conn redigo.Conn, c Cmd) (interface{}, error) {
	name, args, _, err := wire(c)
	if err != nil {
		return nil, err
	}
	got, err := conn.Do(name, args...)
	if e, ok := err.(redigo.Error); ok {
		return e, nil
	}
	return got, err
}

func one(js []byte) {
	w := <-pool
	defer func() { pool <- w }()
	var t Trans
	if err := json.Unmarshal(js, &t); err != nil {
		rep.Div("harness", "cannot parse transition: "+err.Error(), js, nil)
		return
	}
	atomic.AddInt64(&rep.N, 1)
	pending, err := w.fresh()
	if err != nil {
		rep.Div("reset", err.Error(), js, nil)
		w.close()
		return
	}
	seq0 := w.srv.Seq() + pending // the queued FLUSHDB takes one journal entry
	var wantJournal [][]string
	// prefix: pipelined with Send/Flush and drained with redigo's empty command, as gmqtt's pool does
	for _, c := range t.Pre {
		if c.C == "SCAN" {
			continue // reads never occur on a BFS path; nothing to do
		}
		name, args, words, err := wire(c)
		if err != nil {
			rep.Div("harness", "bad argument: "+err.Error(), js, nil)
			return
		}
		if err := w.conn.Send(name, args...); err != nil {
			rep.Div("pre-send", err.Error(), js, nil)
			return
		}
		pending++
		if c.W {
			wantJournal = append(wantJournal, words)
		}
	}
	if pending > 0 {
		if err := w.conn.Flush(); err != nil {
			rep.Div("pre-flush", err.Error(), js, nil)
			return
		}
		rs, err := redigo.Values(w.conn.Do(""))
		if err != nil || len(rs) != pending {
			rep.Div("pre-drain", fmt.Sprintf("draining %d pipelined commands returned %d replies, err=%v", pending, len(rs), err), js, nil)
			w.close()
			return
		}
	}
	// the operation
	op := t.Op.Cmd
	if op.C == "SCAN" {
		pat, _, _ := argOf(op.A[0])
		cnt, _, _ := argOf(op.A[1])
		got, err := scanAll(w.conn, pat.(string), cnt.(int64))
		want, _ := strs(t.Op.Reply.V)
		if err != nil {
			rep.Div("reply:SCAN", err.Error(), js, nil)
		} else if !sameSet(got, want) {
			rep.Div("reply:SCAN", fmt.Sprintf("SCAN 0 MATCH %q COUNT %d iterated to cursor 0 returned %v, specification says %v", pat, cnt, got, want), js, nil)
		}
	} else {
		got, err := do(w.conn, op)
		if err != nil {
			rep.Div("op-io:"+op.C, err.Error(), js, nil)
			w.close()
			return
		}
		if !match(t.Op.Reply, got) {
			er, _ := json.Marshal(t.Op.Reply)
			rep.Div("reply:"+op.C, fmt.Sprintf("%s replied %s, specification says %s", op.C, show(got), er), js, nil)
		}
		if _, _, words, _ := wire(op); t.Op.W {
			wantJournal = append(wantJournal, words)
		}
	}
	// the data
	want := map[string]interface{}{}
	for k, v := range t.Db {
		switch v.T {
		case "hash":
			h, err := hashOf(v.V)
			if err != nil {
				rep.Div("harness", "bad hash in model state: "+err.Error(), js, nil)
				return
			}
			want[k] = h
		case "list":
			l, err := strs(v.V)
			if err != nil {
				rep.Div("harness", "bad list in model state: "+err.Error(), js, nil)
				return
			}
			want[k] = l
		}
	}
	snap := w.srv.Snapshot()
	if !reflect.DeepEqual(snap, want) {
		rep.Div("state:"+op.C, fmt.Sprintf("after %s the store is %v, specification says %v", op.C, snap, want), js, nil)
	}
	if len(want) > 0 || len(t.Pre) > 0 {
		atomic.AddInt64(&rep.NonTriv, 1)
	}
	// the journal: exactly the write commands, in order, as sent; a server rebuilt from it has the same data
	j := w.srv.JournalSince(seq0)
	okJ := len(j) == len(wantJournal)
	for i := 0; okJ && i < len(j); i++ {
		okJ = reflect.DeepEqual(j[i].Args, wantJournal[i]) && j[i].Seq == seq0+i+1
	}
	if !okJ {
		rep.Div("journal:"+op.C, fmt.Sprintf("journal is %v, expected the write commands %v", j, wantJournal), js, nil)
	}
	if t.Op.W && *rebuild {
		s2, err := resp.NewServerFromJournal(j)
		if err != nil {
			rep.Div("from-journal", err.Error(), js, nil)
		} else {
			if snap2 := s2.Snapshot(); !reflect.DeepEqual(snap2, want) {
				rep.Div("from-journal:"+op.C, fmt.Sprintf("NewServerFromJournal gives %v, specification says %v", snap2, want), js, nil)
			}
			s2.Close()
			rep.Count("from_journal", 1)
		}
	}
	rep.Count("op:"+op.C, 1)
	rep.Sample(js, 3)
}

// ------------------------------------------------------------------ the MATCH table (printed once by TLC)

type GlobLine struct {
	Glob     map[string][]string `json:"glob"`
	Universe []string            `json:"universe"`
}

var globPairs, globPos int

func globTable(js []byte) {
	var g GlobLine
	if err := json.Unmarshal(js, &g); err != nil {
		fmt.Fprintln(os.Stderr, "bad glob table", err)
		os.Exit(2)
	}
	w := &wctx{}
	if err := w.open(); err != nil {
		fmt.Fprintln(os.Stderr, err)
		os.Exit(2)
	}
	defer w.close()
	for _, u := range g.Universe {
		if _, err := w.conn.Do("RPUSH", u, "x"); err != nil {
			fmt.Fprintln(os.Stderr, err)
			os.Exit(2)
		}
	}
	pats := make([]string, 0, len(g.Glob))
	for p := range g.Glob {
		pats = append(pats, p)
	}
	sort.Strings(pats)
	for _, p := range pats {
		want := g.Glob[p]
		globPairs += len(g.Universe)
		globPos += len(want)
		got, err := redigo.Strings(w.conn.Do("KEYS", p))
		if err != nil || !sameSet(got, want) {
			rep.Div("glob:KEYS", fmt.Sprintf("KEYS %q over %d keys returned %q (err=%v), specification says %q", p, len(g.Universe), got, err, want), nil,
				map[string]interface{}{"pattern": p, "universe": g.Universe})
		}
		got, err = scanAll(w.conn, p, 7)
		if err != nil || !sameSet(got, want) {
			rep.Div("glob:SCAN", fmt.Sprintf("SCAN MATCH %q COUNT 7 over %d keys returned %q (err=%v), specification says %q", p, len(g.Universe), got, err, want), nil,
				map[string]interface{}{"pattern": p, "universe": g.Universe})
		}
	}
}

func main() {
	workers := flag.Int("workers", 0, "")
	raw := flag.Bool("raw", false, "stdin lines are plain JSON (replay) instead of TLA+ string literals")
	flag.Parse()
	n := *workers
	if n <= 0 {
		n = 16
	}
	pool = make(chan *wctx, n)
	for i := 0; i < n; i++ {
		pool <- &wctx{}
	}
	head := func(js []byte) bool {
		if bytes.HasPrefix(js, []byte(`{"glob":`)) || bytes.HasPrefix(js, []byte(`{"universe":`)) {
			globTable(js)
			return true
		}
		return false
	}
	if err := tc.Each(os.Stdin, n, *raw, head, one); err != nil {
		fmt.Fprintln(os.Stderr, err)
		os.Exit(2)
	}
	rep.Summary(map[string]interface{}{"glob_pairs": globPairs, "glob_matching": globPos})
}
