// enhauth executes the cases printed by TLC from spec/EnhAuth.tla on real brokers: one broker whose OnEnhancedAuth / OnAuth /
// OnReAuth hooks give the verdicts scripted for the client id, one broker without such hooks; every reply of the broker
// (CONNACK, AUTH, DISCONNECT, PINGRESP, or the end of the connection) is compared with what the specification demands.
package main

import (
	"context"
	"encoding/json"
	"flag"
	"fmt"
	"os"
	"strings"
	"sync"
	"sync/atomic"
	"time"

	"github.com/DrmagicE/gmqtt/pkg/codes"
	"github.com/DrmagicE/gmqtt/pkg/packets"
	"github.com/DrmagicE/gmqtt/server"

	"verifharness/inproc"
	mw "verifharness/mqttwire"
	"verifharness/tc"
)

type Reply struct {
	T    string `json:"t"`
	Code int    `json:"code"`
	M    bool   `json:"m"`
}

type Line struct {
	Case struct {
		Hook   bool     `json:"hook"`
		Method string   `json:"method"`
		V      []string `json:"v"`
		Steps  []string `json:"steps"`
	} `json:"case"`
	Replies []Reply `json:"replies"`
	Open    bool    `json:"open"`
	Ph      string  `json:"ph"`
}

type script struct {
	mu sync.Mutex
	v  []string
	i  int
}

func (s *script) next() string {
	s.mu.Lock()
	defer s.mu.Unlock()
	if s.i < len(s.v) {
		s.i++
		return s.v[s.i-1]
	}
	return "ok"
}

var (
	rep     = tc.NewReporter()
	scripts sync.Map // client id -> *script
	ncase   int64
	replyTO = 400 * time.Millisecond
	hooked  *inproc.Broker
	plain   *inproc.Broker
)

type plug struct{}

func (plug) Load(server.Server) error { return nil }
func (plug) Unload() error            { return nil }
func (plug) Name() string             { return "g03enhauth" }

func verdict(cid string) string {
	if s, ok := scripts.Load(cid); ok {
		return s.(*script).next()
	}
	return "fail"
}

func (plug) HookWrapper() server.HookWrapper {
	var onAuth server.OnAuth
	onAuth = func(ctx context.Context, client server.Client, req *server.AuthRequest) (*server.AuthResponse, error) {
		switch verdict(client.ClientOptions().ClientID) {
		case "ok":
			return &server.AuthResponse{Continue: false, AuthData: []byte("s-ok")}, nil
		case "cont":
			return &server.AuthResponse{Continue: true, AuthData: []byte("s-more")}, nil
		}
		return nil, &codes.Error{Code: codes.NotAuthorized}
	}
	return server.HookWrapper{
		OnEnhancedAuthWrapper: func(server.OnEnhancedAuth) server.OnEnhancedAuth {
			return func(ctx context.Context, client server.Client, req *server.ConnectRequest) (*server.EnhancedAuthResponse, error) {
				switch verdict(string(req.Connect.ClientID)) {
				case "ok":
					return &server.EnhancedAuthResponse{Continue: false}, nil
				case "cont":
					return &server.EnhancedAuthResponse{Continue: true, OnAuth: onAuth, AuthData: []byte("s-more")}, nil
				}
				return nil, &codes.Error{Code: codes.NotAuthorized}
			}
		},
		OnReAuthWrapper: func(server.OnReAuth) server.OnReAuth {
			return func(ctx context.Context, client server.Client, auth *packets.Auth) (*server.AuthResponse, error) {
				return onAuth(ctx, client, nil)
			}
		},
	}
}

func matches(want Reply, got Reply) bool {
	if want.T != got.T {
		// a failing reply may be replaced by closing the connection (MQTT: the packet is optional, closing is not)
		return got.T == "closed" && want.Code >= 128
	}
	switch {
	case want.Code == 128:
		if got.Code < 128 {
			return false
		}
	case want.Code == 140:
		if got.Code != 0x8C && got.Code != 0x87 {
			return false
		}
	default:
		if want.Code != got.Code {
			return false
		}
	}
	if want.T == "auth" || (want.T == "connack" && want.Code == 0) {
		return want.M == got.M
	}
	return true
}

func recvReply(cl *mw.Client) Reply {
	p, err := cl.Recv(replyTO)
	if err != nil {
		if mw.IsTimeout(err) {
			return Reply{T: "silence"}
		}
		return Reply{T: "closed"}
	}
	m := p.Props != nil && p.Props.AuthMethod != nil && *p.Props.AuthMethod == "M"
	switch p.Type {
	case mw.CONNACK:
		return Reply{T: "connack", Code: int(p.Code), M: m}
	case mw.AUTH:
		return Reply{T: "auth", Code: int(p.Code), M: m}
	case mw.DISCONNECT:
		return Reply{T: "disconnect", Code: int(p.Code), M: m}
	case mw.PINGRESP:
		return Reply{T: "pingresp"}
	}
	return Reply{T: "other:" + mw.TypeName(p.Type)}
}

func one(js []byte) {
	var l Line
	if err := json.Unmarshal(js, &l); err != nil {
		rep.Div("harness", "cannot parse case: "+err.Error(), js, nil)
		return
	}
	atomic.AddInt64(&rep.N, 1)
	b := plain
	if l.Case.Hook {
		b = hooked
	}
	cid := fmt.Sprintf("e%d", atomic.AddInt64(&ncase, 1))
	scripts.Store(cid, &script{v: l.Case.V})
	defer scripts.Delete(cid)
	cl, err := mw.Dial(b.Addr, mw.V5, 3*time.Second)
	for i := 0; err != nil && i < 20; i++ {
		time.Sleep(50 * time.Millisecond)
		cl, err = mw.Dial(b.Addr, mw.V5, 3*time.Second)
	}
	if err != nil {
		rep.Div("harness", "dial: "+err.Error(), js, nil)
		return
	}
	defer cl.Close()
	pk := mw.Connect(mw.V5, cid, true, 0)
	pk.Props = &mw.Props{}
	if l.Case.Method == "M" {
		pk.Props.AuthMethod, pk.Props.AuthData, pk.Props.HasAuthData = mw.Str("M"), []byte("c-first"), true
	}
	pk.Version = mw.V5
	cl.Send(pk)
	var got []Reply
	got = append(got, recvReply(cl))
	gone := got[0].T == "closed"
	for i, st := range l.Case.Steps {
		if gone {
			break
		}
		var p *mw.Packet
		auth := func(code byte, method string) *mw.Packet {
			return &mw.Packet{Type: mw.AUTH, Code: code, Props: &mw.Props{AuthMethod: mw.Str(method), AuthData: []byte(fmt.Sprintf("c-%d", i)), HasAuthData: true}}
		}
		switch st {
		case "authM":
			p = auth(0x18, "M")
		case "authX":
			p = auth(0x18, "X")
		case "reauthM":
			p = auth(0x19, "M")
		case "reauthX":
			p = auth(0x19, "X")
		case "ping":
			p = mw.Pingreq()
		}
		p.Version = mw.V5
		if err := cl.Send(p); err != nil {
			got = append(got, Reply{T: "closed"})
			gone = true
			break
		}
		r := recvReply(cl)
		got = append(got, r)
		if r.T == "closed" {
			gone = true
		}
	}
	// compare: the demanded replies, in order; replies demanded after the connection has gone are not owed
	what := func(s string) string {
		return fmt.Sprintf("handler=%v method=%s verdicts=%v client sends %v: %s; replies %+v, demanded %+v", l.Case.Hook, l.Case.Method, l.Case.V, l.Case.Steps, s, got, l.Replies)
	}
	ok := true
	for i, w := range l.Replies {
		if i >= len(got) {
			ok = false
			rep.Div(fmt.Sprintf("reply:missing:%s/%d", w.T, w.Code), what(fmt.Sprintf("reply %d missing", i+1)), js, nil)
			break
		}
		if !matches(w, got[i]) {
			ok = false
			rep.Div(fmt.Sprintf("reply:want=%s/%d/m=%v,got=%s/%d/m=%v", w.T, w.Code, w.M, got[i].T, got[i].Code, got[i].M), what(fmt.Sprintf("reply %d differs", i+1)), js, nil)
			if w.T == got[i].T && (w.Code >= 128) == (got[i].Code >= 128) {
				continue // same kind of reply (a detail differs): the exchange is still in step, compare on
			}
			break
		}
		if got[i].T == "closed" && w.T != "closed" {
			rep.Count("failing_packet_replaced_by_close:"+w.T, 1)
			break
		}
	}
	if ok && len(got) > len(l.Replies) {
		extra := got[len(l.Replies)]
		if !(extra.T == "closed" && !l.Open) && extra.T != "silence" {
			ok = false
			rep.Div(fmt.Sprintf("reply:extra:%s/%d", extra.T, extra.Code), what("a reply nobody demanded"), js, nil)
		}
	}
	if ok {
		// open / closed at the end (a handshake that is still going on is not probed: a PINGREQ would be a protocol error)
		if l.Ph == "hs" {
		} else if !gone {
			p := mw.Pingreq()
			p.Version = mw.V5
			cl.Send(p)
			r := recvReply(cl)
			isOpen := r.T == "pingresp"
			if isOpen != l.Open && !(r.T == "silence" && !l.Open) {
				ok = false
				rep.Div(fmt.Sprintf("open:want=%v,got=%s", l.Open, r.T), what(fmt.Sprintf("at the end the connection answers a PINGREQ with %s", r.T)), js, nil)
			} else if r.T == "silence" && !l.Open {
				ok = false
				rep.Div("open:want=false,got=silent-but-open", what("at the end the connection is neither closed nor answering"), js, nil)
			}
		} else if l.Open {
			ok = false
			rep.Div("open:want=true,got=closed", what("the connection was closed"), js, nil)
		}
	}
	if ok {
		rep.Sample(js, 3)
		atomic.AddInt64(&rep.NonTriv, 1)
	}
}

func main() {
	workers := flag.Int("workers", 16, "")
	raw := flag.Bool("raw", false, "stdin lines are plain JSON instead of TLA+ string literals")
	flag.Parse()
	var err error
	hooked, err = inproc.Start(inproc.Options{Cfg: inproc.DefaultConfig(), Server: []server.Options{server.WithPlugin(plug{})}})
	if err != nil {
		fmt.Fprintln(os.Stderr, "broker:", err)
		os.Exit(2)
	}
	plain, err = inproc.Start(inproc.Options{Cfg: inproc.DefaultConfig()})
	if err != nil {
		fmt.Fprintln(os.Stderr, "broker:", err)
		os.Exit(2)
	}
	if err := tc.Each(os.Stdin, *workers, *raw, nil, one); err != nil {
		fmt.Fprintln(os.Stderr, err)
		os.Exit(2)
	}
	hooked.Stop(3 * time.Second)
	plain.Stop(3 * time.Second)
	_ = strings.TrimSpace
	rep.Summary(nil)
}
