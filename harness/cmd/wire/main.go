// wire runs scripted scenarios (ndjson, one per line) against real in-process brokers and writes the
// concatenated ndjson trace plus an index (which lines belong to which scenario).
package main

import (
	"bufio"
	"encoding/json"
	"flag"
	"fmt"
	"os"
	"sync"

	"verifharness/inproc"
	"verifharness/wire"
)

type indexEntry struct {
	ID    string   `json:"id"`
	From  int      `json:"from"` // 1-based line numbers in the trace file
	To    int      `json:"to"`
	Fatal string   `json:"fatal,omitempty"`
	Notes []string `json:"notes,omitempty"`
	// schedule gating: release steps that found the connection parked where the schedule says / that did not
	Followed int `json:"followed,omitempty"`
	Diverged int `json:"diverged,omitempty"`
}

func main() {
	in := flag.String("scenarios", "", "ndjson file with scenarios")
	out := flag.String("out", "", "trace output (ndjson)")
	idx := flag.String("index", "", "index output (json)")
	par := flag.Int("par", 16, "scenarios in parallel")
	slow := flag.Bool("slow", false, "slow mode (long timeouts, settle after barriers)")
	flag.Parse()
	f, err := os.Open(*in)
	if err != nil {
		fmt.Fprintln(os.Stderr, err)
		os.Exit(2)
	}
	var scs []*wire.Scenario
	sc := bufio.NewScanner(f)
	sc.Buffer(make([]byte, 1<<20), 64<<20)
	for sc.Scan() {
		if len(sc.Bytes()) == 0 {
			continue
		}
		s := &wire.Scenario{}
		if err := json.Unmarshal(sc.Bytes(), s); err != nil {
			fmt.Fprintln(os.Stderr, "bad scenario:", err)
			os.Exit(2)
		}
		if *slow {
			s.Slow = true
		}
		scs = append(scs, s)
	}
	f.Close()
	results := make([][]inproc.Event, len(scs))
	runs := make([]*wire.Run, len(scs))
	sem := make(chan struct{}, *par)
	var wg sync.WaitGroup
	for i := range scs {
		wg.Add(1)
		sem <- struct{}{}
		go func(i int) {
			defer wg.Done()
			defer func() { <-sem }()
			runs[i], results[i] = wire.Execute(scs[i])
		}(i)
	}
	wg.Wait()
	of, err := os.Create(*out)
	if err != nil {
		fmt.Fprintln(os.Stderr, err)
		os.Exit(2)
	}
	w := bufio.NewWriterSize(of, 1<<20)
	line := 0
	var index []indexEntry
	fatals := 0
	for i, evs := range results {
		n, err := wire.WriteTrace(w, evs)
		if err != nil {
			fmt.Fprintln(os.Stderr, err)
			os.Exit(2)
		}
		e := indexEntry{ID: scs[i].ID, From: line + 1, To: line + n, Fatal: runs[i].Fatal, Notes: runs[i].Notes, Followed: runs[i].Followed, Diverged: runs[i].Diverged}
		if e.Fatal != "" {
			fatals++
		}
		index = append(index, e)
		line += n
	}
	w.Flush()
	of.Close()
	b, _ := json.Marshal(index)
	if err := os.WriteFile(*idx, b, 0o644); err != nil {
		fmt.Fprintln(os.Stderr, err)
		os.Exit(2)
	}
	fmt.Printf("{\"scenarios\":%d,\"events\":%d,\"fatal\":%d}\n", len(scs), line, fatals)
}
