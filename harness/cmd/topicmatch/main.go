// topicmatch compares packets.TopicMatch (and, with -validity, the topic name/filter validators) with the
// table TLC computed from Topics.tla / TopicStr.tla for every string over a small alphabet.
package main

import (
	"encoding/json"
	"flag"
	"fmt"
	"os"
	"sync"
	"sync/atomic"

	"github.com/DrmagicE/gmqtt/pkg/packets"

	"verifharness/tc"
)

type strLine struct {
	Strings []struct {
		S  string `json:"s"`
		Vn bool   `json:"vn"`
		Vf bool   `json:"vf"`
	} `json:"strings"`
}

type nameLine struct {
	Name string   `json:"name"`
	M    []string `json:"m"`
}

func main() {
	validity := flag.Bool("validity", false, "check ValidTopicName / ValidTopicFilter / ValidV5Topic instead of TopicMatch")
	flag.Parse()
	rep := tc.NewReporter()
	var filters []string
	var mu sync.Mutex
	var pairs, positives int64
	head := func(js []byte) bool {
		if len(js) > 11 && string(js[:11]) == `{"strings":` {
			var l strLine
			if err := json.Unmarshal(js, &l); err != nil {
				fmt.Fprintln(os.Stderr, err)
				os.Exit(2)
			}
			mu.Lock()
			defer mu.Unlock()
			for _, s := range l.Strings {
				if s.Vf {
					filters = append(filters, s.S)
				}
				if *validity {
					atomic.AddInt64(&rep.N, 1)
					b := []byte(s.S)
					if got := packets.ValidTopicName(true, b) && len(b) > 0; got != s.Vn {
						// an empty topic name is rejected by the PUBLISH decoder separately; the table has no empty string
						rep.Div("valid-name", fmt.Sprintf("ValidTopicName(%q) = %v, specification says %v", s.S, got, s.Vn), js[:0], s)
					}
					if got := packets.ValidTopicFilter(true, b); got != s.Vf {
						rep.Div("valid-filter", fmt.Sprintf("ValidTopicFilter(%q) = %v, specification says %v", s.S, got, s.Vf), js[:0], s)
					}
					if got := packets.ValidV5Topic(b); got != s.Vf {
						rep.Div("valid-v5", fmt.Sprintf("ValidV5Topic(%q) = %v, specification says %v", s.S, got, s.Vf), js[:0], s)
					}
					if s.Vn || s.Vf {
						atomic.AddInt64(&rep.NonTriv, 1)
					}
				}
			}
			return true
		}
		return false
	}
	err := tc.Each(os.Stdin, 0, false, head, func(js []byte) {
		if *validity {
			return
		}
		var l nameLine
		if err := json.Unmarshal(js, &l); err != nil {
			rep.Div("harness", err.Error(), js, nil)
			return
		}
		want := map[string]bool{}
		for _, f := range l.M {
			want[f] = true
		}
		atomic.AddInt64(&positives, int64(len(l.M)))
		for _, f := range filters {
			atomic.AddInt64(&pairs, 1)
			got := packets.TopicMatch([]byte(l.Name), []byte(f))
			if got != want[f] {
				rep.Div("topicmatch", fmt.Sprintf("TopicMatch(topic=%q, filter=%q) = %v, specification says %v", l.Name, f, got, want[f]), nil,
					map[string]string{"topic": l.Name, "filter": f})
			}
		}
		atomic.AddInt64(&rep.N, 1)
		rep.Sample(js, 2)
	})
	if err != nil {
		fmt.Fprintln(os.Stderr, err)
		os.Exit(2)
	}
	rep.Summary(map[string]interface{}{"pairs": pairs, "positives": positives, "filters": len(filters)})
}
