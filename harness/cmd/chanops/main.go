// chanops lists, with go/ast only (no type checking, no build of the tree), every channel operation of the given
// Go source files: sends, receives, range-over-channel, close(), each with its enclosing function and -- when the
// operation is the communication of a select clause -- the sibling clauses (in particular whether one of them
// receives from the `close` channel of the connection).  It also lists the call sites the connection model depends
// on (rwc.Close, client.write, setError, errOnce.Do) in source order.
//
// The C15 check feeds this table to spec/Conn.tla as constants, so that the design-level model follows the source
// at check time (DESIGN.md C15 / B.4).  Output: one JSON object on stdout.
package main

import (
	"encoding/json"
	"flag"
	"fmt"
	"go/ast"
	"go/parser"
	"go/token"
	"os"
	"path/filepath"
	"sort"
	"strings"
)

type Op struct {
	File    string   `json:"file"`
	Func    string   `json:"func"`
	Kind    string   `json:"kind"` // send | recv | range | close
	Chan    string   `json:"chan"` // last selector component(s): in, out, close, closed, connected, timeout.C, ...
	Expr    string   `json:"expr"` // the channel expression as written
	Line    int      `json:"line"`
	Select  bool     `json:"select"`      // the operation is the Comm of a select clause
	Guard   bool     `json:"guard_close"` // ... and a sibling clause receives from a `close` channel
	Others  []string `json:"select_others,omitempty"`
	Default bool     `json:"select_default,omitempty"`
	InLit   bool     `json:"in_func_literal"`       // inside a function literal of Func
	InOnce  bool     `json:"in_once_do"`            // inside the literal passed to <x>.Do(...)
	Deferd  bool     `json:"in_deferred,omitempty"` // inside a deferred function literal
}

type Call struct {
	File   string `json:"file"`
	Func   string `json:"func"`
	Callee string `json:"callee"` // rwc.Close | write | setError | errOnce.Do | Close | ...
	Expr   string `json:"expr"`
	Line   int    `json:"line"`
	InOnce bool   `json:"in_once_do"`
	Deferd bool   `json:"in_deferred,omitempty"`
}

type Range struct {
	File string `json:"file"`
	Func string `json:"func"`
	Expr string `json:"expr"`
	Line int    `json:"line"`
}

type Out struct {
	Ranges     []Range             `json:"ranges"`
	Files      []string            `json:"files"`
	ChanFields map[string][]string `json:"chan_fields"` // struct -> channel-typed fields
	ChanCaps   map[string]string   `json:"chan_caps"`   // "in" -> "8": make(chan T, n) assigned to a field in a composite literal
	Ops        []Op                `json:"ops"`
	Calls      []Call              `json:"calls"`
}

func exprStr(e ast.Expr) string {
	switch x := e.(type) {
	case *ast.Ident:
		return x.Name
	case *ast.SelectorExpr:
		return exprStr(x.X) + "." + x.Sel.Name
	case *ast.ParenExpr:
		return exprStr(x.X)
	case *ast.StarExpr:
		return "*" + exprStr(x.X)
	case *ast.IndexExpr:
		return exprStr(x.X) + "[..]"
	case *ast.CallExpr:
		return exprStr(x.Fun) + "()"
	case *ast.BasicLit:
		return x.Value
	}
	return fmt.Sprintf("<%T>", e)
}

// chanName: the part of the expression that identifies the channel independent of the receiver's variable name.
func chanName(e ast.Expr) string {
	s := exprStr(e)
	parts := strings.Split(s, ".")
	if len(parts) >= 2 && (parts[len(parts)-1] == "C") { // timer channel: timeout.C
		return parts[len(parts)-2] + ".C"
	}
	return parts[len(parts)-1]
}

type walker struct {
	fset   *token.FileSet
	file   string
	out    *Out
	chanFl map[string]bool
}

type scope struct {
	fn     string
	inLit  bool
	inOnce bool
	deferd bool
}

func (w *walker) commOp(c ast.Stmt) (kind string, ch ast.Expr) {
	switch s := c.(type) {
	case *ast.SendStmt:
		return "send", s.Chan
	case *ast.ExprStmt:
		if u, ok := s.X.(*ast.UnaryExpr); ok && u.Op == token.ARROW {
			return "recv", u.X
		}
	case *ast.AssignStmt:
		if len(s.Rhs) == 1 {
			if u, ok := s.Rhs[0].(*ast.UnaryExpr); ok && u.Op == token.ARROW {
				return "recv", u.X
			}
		}
	}
	return "", nil
}

func (w *walker) add(sc scope, kind string, ch ast.Expr, pos token.Pos, sel *ast.SelectStmt, self ast.Stmt) {
	op := Op{File: w.file, Func: sc.fn, Kind: kind, Chan: chanName(ch), Expr: exprStr(ch), Line: w.fset.Position(pos).Line,
		InLit: sc.inLit, InOnce: sc.inOnce, Deferd: sc.deferd}
	if sel != nil {
		op.Select = true
		for _, cl := range sel.Body.List {
			cc := cl.(*ast.CommClause)
			if cc.Comm == nil {
				op.Default = true
				continue
			}
			if cc.Comm == self {
				continue
			}
			k, c := w.commOp(cc.Comm)
			op.Others = append(op.Others, k+":"+chanName(c))
			if k == "recv" && chanName(c) == "close" {
				op.Guard = true
			}
		}
	}
	w.out.Ops = append(w.out.Ops, op)
}

// walk visits n; comm statements of select clauses are recorded with their select and not visited again.
func (w *walker) walk(n ast.Node, sc scope) {
	if n == nil {
		return
	}
	ast.Inspect(n, func(x ast.Node) bool {
		switch s := x.(type) {
		case *ast.FuncLit:
			if x == n {
				return true
			}
			w.walk(s.Body, scope{fn: sc.fn, inLit: true, inOnce: sc.inOnce, deferd: sc.deferd})
			return false
		case *ast.DeferStmt:
			if fl, ok := s.Call.Fun.(*ast.FuncLit); ok {
				w.walk(fl.Body, scope{fn: sc.fn, inLit: true, inOnce: sc.inOnce, deferd: true})
				for _, a := range s.Call.Args {
					w.walk(a, sc)
				}
				return false
			}
			d := sc
			d.deferd = true
			w.walk(s.Call, d)
			return false
		case *ast.SelectStmt:
			for _, cl := range s.Body.List {
				cc := cl.(*ast.CommClause)
				if cc.Comm != nil {
					if k, c := w.commOp(cc.Comm); k != "" {
						w.add(sc, k, c, cc.Comm.Pos(), s, cc.Comm)
					}
					// the value expression of a send may contain further operations
					if snd, ok := cc.Comm.(*ast.SendStmt); ok {
						w.walk(snd.Value, sc)
					}
				}
				for _, b := range cc.Body {
					w.walk(b, sc)
				}
			}
			return false
		case *ast.SendStmt:
			w.add(sc, "send", s.Chan, s.Pos(), nil, nil)
			return true
		case *ast.UnaryExpr:
			if s.Op == token.ARROW {
				w.add(sc, "recv", s.X, s.Pos(), nil, nil)
			}
			return true
		case *ast.RangeStmt:
			w.out.Ranges = append(w.out.Ranges, Range{File: w.file, Func: sc.fn, Expr: exprStr(s.X), Line: w.fset.Position(s.Pos()).Line})
			if w.chanFl[chanName(s.X)] {
				w.add(sc, "range", s.X, s.Pos(), nil, nil)
			}
			return true
		case *ast.CallExpr:
			callee := exprStr(s.Fun)
			if id, ok := s.Fun.(*ast.Ident); ok && id.Name == "close" && len(s.Args) == 1 {
				w.add(sc, "close", s.Args[0], s.Pos(), nil, nil)
				return true
			}
			short := callee
			if i := strings.Index(callee, "."); i >= 0 {
				short = callee[i+1:] // drop the receiver variable
			}
			interesting := map[string]bool{"rwc.Close": true, "write": true, "setError": true, "errOnce.Do": true, "Close": true,
				"wg.Wait": true, "Wait": true, "pl.close": true, "queueStore.Close": true, "register": true, "unregister": true,
				"stopOnce.Do": true, "exit": true, "Unload": true, "hooks.OnStop": true, "mu.Lock": true, "mu.Unlock": true}
			if interesting[short] {
				w.out.Calls = append(w.out.Calls, Call{File: w.file, Func: sc.fn, Callee: short, Expr: callee,
					Line: w.fset.Position(s.Pos()).Line, InOnce: sc.inOnce, Deferd: sc.deferd})
			}
			if strings.HasSuffix(short, "Once.Do") && len(s.Args) == 1 {
				if fl, ok := s.Args[0].(*ast.FuncLit); ok {
					w.walk(fl.Body, scope{fn: sc.fn, inLit: true, inOnce: true, deferd: sc.deferd})
					return false
				}
			}
			return true
		}
		return true
	})
}

func main() {
	flag.Parse()
	files := flag.Args()
	if len(files) == 0 {
		fmt.Fprintln(os.Stderr, "usage: chanops file.go ...")
		os.Exit(2)
	}
	out := &Out{ChanFields: map[string][]string{}, ChanCaps: map[string]string{}}
	fset := token.NewFileSet()
	var parsed []*ast.File
	chanFl := map[string]bool{}
	for _, f := range files {
		af, err := parser.ParseFile(fset, f, nil, parser.SkipObjectResolution)
		if err != nil {
			fmt.Fprintln(os.Stderr, "parse:", err)
			os.Exit(2)
		}
		parsed = append(parsed, af)
		out.Files = append(out.Files, f)
		// channel-typed struct fields and capacities of make(chan ..) in composite literals
		ast.Inspect(af, func(x ast.Node) bool {
			switch t := x.(type) {
			case *ast.TypeSpec:
				if st, ok := t.Type.(*ast.StructType); ok {
					for _, fl := range st.Fields.List {
						if _, ok := fl.Type.(*ast.ChanType); ok {
							for _, n := range fl.Names {
								out.ChanFields[t.Name.Name] = append(out.ChanFields[t.Name.Name], n.Name)
								chanFl[n.Name] = true
							}
						}
					}
				}
			case *ast.KeyValueExpr:
				if k, ok := t.Key.(*ast.Ident); ok {
					if c, ok := t.Value.(*ast.CallExpr); ok {
						if id, ok := c.Fun.(*ast.Ident); ok && id.Name == "make" && len(c.Args) >= 1 {
							if _, ok := c.Args[0].(*ast.ChanType); ok {
								capv := "0"
								if len(c.Args) == 2 {
									capv = exprStr(c.Args[1])
								}
								out.ChanCaps[k.Name] = capv
							}
						}
					}
				}
			}
			return true
		})
	}
	for i, af := range parsed {
		w := &walker{fset: fset, file: filepath.Base(files[i]), out: out, chanFl: chanFl}
		for _, d := range af.Decls {
			fd, ok := d.(*ast.FuncDecl)
			if !ok || fd.Body == nil {
				continue
			}
			w.walk(fd.Body, scope{fn: fd.Name.Name})
		}
	}
	sort.SliceStable(out.Ops, func(i, j int) bool {
		if out.Ops[i].File != out.Ops[j].File {
			return out.Ops[i].File < out.Ops[j].File
		}
		return out.Ops[i].Line < out.Ops[j].Line
	})
	sort.SliceStable(out.Calls, func(i, j int) bool {
		if out.Calls[i].File != out.Calls[j].File {
			return out.Calls[i].File < out.Calls[j].File
		}
		return out.Calls[i].Line < out.Calls[j].Line
	})
	b, _ := json.MarshalIndent(out, "", " ")
	os.Stdout.Write(b)
	os.Stdout.WriteString("\n")
}
