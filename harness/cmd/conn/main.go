// conn binds spec/Conn.tla (property C15) to real gmqtt brokers.  One invocation executes ONE scenario on a fresh
// in-process broker (so that a goroutine left behind by one scenario cannot be blamed on another) and prints one JSON
// result on stdout.
//
//	kind "script"  a sequence of peer / admin steps (connect, send <kind>, stall, flood, close, stop, api, sleep), usually
//	               the environment actions of a TLC counter-example of the Conn model; the verdicts are the clauses of
//	               C15: every request answered or the connection closed within the request watchdog, a closed socket
//	               leads to the `closed` lifecycle event, Stop returns nil within its watchdog, Unload and OnStop ran
//	               exactly once, and no goroutine of the broker is left afterwards (runtime/pprof goroutine profile,
//	               filtered on gmqtt frames).
//	kind "gate"    two CONNECTs with one client id held at the `takeover.unlocked` gate of lockDuplicatedID (schedule
//	               gating) -- the window of a stored session without online client.
//	kind "storm"   free-running clients x API callers x Stop at a seeded instant; same verdicts, and the lifecycle hook
//	               events are returned for trace validation against spec/TraceConn.tla.
//
// A divergence carries a signature = <symptom>:<where the stuck goroutines are> so that distinct defects stay distinct.
package main

import (
	"bytes"
	"context"
	"encoding/json"
	"flag"
	"fmt"
	"math/rand"
	"net"
	"os"
	"regexp"
	"runtime"
	"runtime/pprof"
	"sort"
	"strings"
	"sync"
	"sync/atomic"
	"syscall"
	"time"

	"github.com/DrmagicE/gmqtt"
	"github.com/DrmagicE/gmqtt/config"
	"github.com/DrmagicE/gmqtt/persistence"
	"github.com/DrmagicE/gmqtt/persistence/queue"
	"github.com/DrmagicE/gmqtt/server"

	"verifharness/inproc"
	mw "verifharness/mqttwire"
)

// ---------------------------------------------------------------- scenario

type ConnSpec struct {
	K         int    `json:"k"`
	Ver       byte   `json:"ver"`
	CID       string `json:"cid"`
	KeepAlive uint16 `json:"keepalive"`
	Clean     bool   `json:"clean"`
	SmallBuf  bool   `json:"smallbuf"`
	WillDelay uint32 `json:"willdelay"`
	Expiry    uint32 `json:"expiry"`
}

type Step struct {
	Op     string `json:"op"` // connect | send | stall | flood | close | stop | api | sleep | settle | dump
	K      int    `json:"k,omitempty"`
	Kind   string `json:"kind,omitempty"`   // send: connect badconnect ping pub ok ack bad mal disc ; api: terminate publish
	N      int    `json:"n,omitempty"`      // repetition (amplification of the model's capacities)
	NoWait bool   `json:"nowait,omitempty"` // fillers: do not wait for answers
	// Tail: that many PINGREQ packets follow the packet in the SAME write (pipelined behind a packet that makes the
	// broker stop consuming client.in: they are in the socket before the broker can close it)
	Tail int `json:"tail,omitempty"`
	Ms     int    `json:"ms,omitempty"`
}

type StormSpec struct {
	Clients  int `json:"clients"`
	IDs      int `json:"ids"`
	Ops      int `json:"ops"`
	API      int `json:"api"`
	StopLoMs int `json:"stop_lo_ms"`
	StopHiMs int `json:"stop_hi_ms"`
	// Fresh: per cent of the connections that use a client id never seen before (first touch of the per-client
	// statistics, session creation) and subscribe with wildcards; 0 = the few colliding ids only
	Fresh int `json:"fresh"`
	// Wills: per cent of the connections that are MQTT 5 with a Will Delay Interval of 1..2 s and a session that outlives it;
	// such clients are killed rather than disconnected most of the time (will timers pending, cancelled by quick returns)
	Wills int `json:"wills"`
}

type Scenario struct {
	ID          string     `json:"id"`
	Kind        string     `json:"kind"`
	Seed        int64      `json:"seed"`
	Conns       []ConnSpec `json:"conns"`
	Steps       []Step     `json:"steps"`
	Storm       *StormSpec `json:"storm,omitempty"`
	RequestMs   int        `json:"request_ms"`
	StopMs      int        `json:"stop_ms"`
	NoFinalStop bool       `json:"no_final_stop,omitempty"`
}

type Div struct {
	Signature string      `json:"signature"`
	What      string      `json:"what"`
	Detail    interface{} `json:"detail,omitempty"`
}

type Result struct {
	ID         string                 `json:"id"`
	Divs       []Div                  `json:"divs"`
	Trace      []inproc.Event         `json:"trace"`
	Stats      map[string]interface{} `json:"stats"`
	Goroutines string                 `json:"goroutines,omitempty"`
	Notes      []string               `json:"notes,omitempty"`
	Fatal      string                 `json:"fatal,omitempty"`
}

var deliveryMode string // "" = the default of the configuration

var (
	res   = &Result{Stats: map[string]interface{}{}, Divs: []Div{}}
	resMu sync.Mutex
)

func div(sig, what string, detail interface{}) {
	resMu.Lock()
	defer resMu.Unlock()
	for _, d := range res.Divs {
		if d.Signature == sig {
			return
		}
	}
	res.Divs = append(res.Divs, Div{sig, what, detail})
}

func note(f string, a ...interface{}) {
	resMu.Lock()
	if len(res.Notes) < 200 {
		res.Notes = append(res.Notes, fmt.Sprintf(f, a...))
	}
	resMu.Unlock()
}

func setStat(k string, v interface{}) {
	resMu.Lock()
	res.Stats[k] = v
	resMu.Unlock()
}

func stat(k string, d int64) {
	resMu.Lock()
	v, _ := res.Stats[k].(int64)
	res.Stats[k] = v + d
	resMu.Unlock()
}

// ---------------------------------------------------------------- plugin counting Load / Unload / OnStop

type plug struct {
	loads, unloads, onstops int32
	// late accept: when armed, the OnAccept hook of the NEXT accepted connection parks until Stop has returned (a
	// connection that is accepted while Stop runs: it sits between accept and the registration in srv.conns)
	lateMu   sync.Mutex
	late     chan struct{}
	lateHeld int32
}

func (p *plug) arm() {
	p.lateMu.Lock()
	p.late = make(chan struct{})
	p.lateMu.Unlock()
}

func (p *plug) release() (was bool) {
	p.lateMu.Lock()
	if p.late != nil {
		close(p.late)
		p.late = nil
		was = true
	}
	p.lateMu.Unlock()
	return
}

func (p *plug) Load(server.Server) error { atomic.AddInt32(&p.loads, 1); return nil }
func (p *plug) Unload() error            { atomic.AddInt32(&p.unloads, 1); return nil }
func (p *plug) Name() string             { return "c15probe" }
func (p *plug) HookWrapper() server.HookWrapper {
	return server.HookWrapper{OnStopWrapper: func(next server.OnStop) server.OnStop {
		return func(ctx context.Context) {
			atomic.AddInt32(&p.onstops, 1)
			if next != nil {
				next(ctx)
			}
		}
	}, OnAcceptWrapper: func(next server.OnAccept) server.OnAccept {
		return func(ctx context.Context, conn net.Conn) bool {
			p.lateMu.Lock()
			ch := p.late
			p.lateMu.Unlock()
			if ch != nil && atomic.CompareAndSwapInt32(&p.lateHeld, 0, 1) {
				select {
				case <-ch:
				case <-time.After(15 * time.Second):
				}
			}
			if next != nil {
				return next(ctx, conn)
			}
			return true
		}
	}}
}

// ---------------------------------------------------------------- goroutine profile

type gor struct {
	ID     string   `json:"id"`
	State  string   `json:"state"`
	Top    string   `json:"top"`   // innermost gmqtt frame
	Where  string   `json:"where"` // file:line of that frame
	Frames []string `json:"frames"`
	Class  string   `json:"class"`
	Root   bool     `json:"root"`
}

var (
	hdrRe  = regexp.MustCompile(`^goroutine (\d+) \[([^\]]+)\]:`)
	locRe  = regexp.MustCompile(`^\t(\S+):(\d+)`)
	gmqttP = "github.com/DrmagicE/gmqtt/"
)

func shortFn(f string) string {
	f = strings.TrimPrefix(f, gmqttP)
	if i := strings.Index(f, "("); i >= 0 && strings.HasSuffix(f, ")") {
		// strip the argument list
		depth := 0
		for j := len(f) - 1; j >= 0; j-- {
			if f[j] == ')' {
				depth++
			} else if f[j] == '(' {
				depth--
				if depth == 0 {
					f = f[:j]
					break
				}
			}
		}
	}
	return f
}

// gmqttGoroutines returns the goroutines that have at least one frame of the broker and none of the harness driving it.
func gmqttGoroutines() ([]gor, string) {
	var buf bytes.Buffer
	pprof.Lookup("goroutine").WriteTo(&buf, 2)
	var out []gor
	var raw []string
	for _, blk := range strings.Split(buf.String(), "\n\n") {
		lines := strings.Split(strings.TrimSpace(blk), "\n")
		if len(lines) < 2 {
			continue
		}
		m := hdrRe.FindStringSubmatch(lines[0])
		if m == nil {
			continue
		}
		g := gor{ID: m[1], State: strings.Split(m[2], ",")[0]}
		harness := false
		for i := 1; i < len(lines); i++ {
			l := lines[i]
			if strings.HasPrefix(l, "\t") || strings.HasPrefix(l, "created by") {
				continue
			}
			if strings.HasPrefix(l, "main.") || strings.HasPrefix(l, "verifharness/") {
				harness = true
			}
			if strings.HasPrefix(l, gmqttP) {
				fn := shortFn(l)
				g.Frames = append(g.Frames, fn)
				if g.Top == "" {
					g.Top = fn
					if i+1 < len(lines) {
						if lm := locRe.FindStringSubmatch(lines[i+1]); lm != nil {
							p := lm[1]
							if j := strings.LastIndex(p, "/"); j >= 0 {
								p = p[j+1:]
							}
							g.Where = p + ":" + lm[2]
						}
					}
				}
			}
		}
		if g.Top == "" || harness {
			continue
		}
		classify(&g)
		out = append(out, g)
		raw = append(raw, blk)
	}
	return out, strings.Join(raw, "\n\n")
}

func has(g *gor, s string) bool {
	for _, f := range g.Frames {
		if strings.Contains(f, s) {
			return true
		}
	}
	return false
}

// classify names where a goroutine of the broker is parked; Root marks the ones that are a cause rather than a waiter.
func classify(g *gor) {
	switch {
	case has(g, "(*client).setError") && has(g, "(*client).write"):
		g.Class, g.Root = "seterror-blocked-in-once-writing-disconnect", true
	case has(g, "(*client).setError"):
		g.Class = "seterror-waiting-for-once"
	case has(g, "(*client).readLoop") && (g.State == "chan send" || g.State == "select"): // (the select around the send to `in`)
		g.Class, g.Root = "readloop-blocked-sending-to-in", true
	case has(g, "(*client).readLoop") && g.State == "chan receive":
		g.Class = "readloop-waiting-for-connected"
	case has(g, "(*client).readLoop"):
		g.Class, g.Root = "readloop-in-socket-read", true
	case has(g, "sendErrConnack") || (has(g, "(*client).connectWithTimeOut") && g.State == "chan send"):
		g.Class, g.Root = "handshake-blocked-sending-to-out", true
	case has(g, "(*server).lockDuplicatedID"):
		g.Class = "takeover-waiting-for-old-connection"
	case has(g, "(*client).connectWithTimeOut"):
		g.Class = "handshake-waiting-for-connect"
	case has(g, "(*server).unregisterClient.func"):
		g.Class, g.Root = "will-timer-pending", true
	case has(g, "(*client).writeLoop"):
		g.Class = "writeloop:" + g.State
	case has(g, "(*client).pollMessageHandler"):
		g.Class = "poll:" + g.State
	case has(g, "(*client).readHandle"):
		g.Class = "handle:" + g.State
	case has(g, "(*client).serve"):
		g.Class = "serve-joining"
	case has(g, "(*server).Stop"):
		g.Class = "stop-waiting-for-closed"
	case has(g, "(*server).eventLoop") || has(g, "(*server).serveTCP") || has(g, "(*server).serveAPIServer") || has(g, "(*server).Run"):
		g.Class, g.Root = "service:"+g.Top, true
	default:
		g.Class, g.Root = "other:"+g.Top+"["+g.State+"]", true
	}
}

func causes(gs []gor) string {
	set := map[string]bool{}
	for _, g := range gs {
		if g.Root {
			set[g.Class] = true
		}
	}
	if len(set) == 0 {
		for _, g := range gs {
			set[g.Class] = true
		}
	}
	var l []string
	for k := range set {
		l = append(l, k)
	}
	sort.Strings(l)
	return strings.Join(l, "+")
}

// settleGoroutines waits (at most d) for the broker's goroutines to disappear and returns what is left.
func settleGoroutines(d time.Duration) ([]gor, string) {
	deadline := time.Now().Add(d)
	for {
		gs, raw := gmqttGoroutines()
		if len(gs) == 0 || time.Now().After(deadline) {
			return gs, raw
		}
		time.Sleep(50 * time.Millisecond)
	}
}

// ---------------------------------------------------------------- broker under test

type bench struct {
	b       *inproc.Broker
	p       *plug
	rec     *inproc.Recorder
	stopped bool
	twice   bool // Stop is called from two goroutines at once
	stopErr error
	stopDur time.Duration
}

func startBroker(gate func(string, map[string]interface{})) *bench {
	return startBrokerRec(gate, true)
}

// startBrokerRec: with hooks = false the lifecycle hook events are not recorded (the recorder's mutex serialises the hook
// points of all connections, which hides lock-order problems between them)
func startBrokerRec(gate func(string, map[string]interface{}), hooks bool) *bench {
	rec := inproc.NewRecorder()
	rec.Hooks = hooks
	p := &plug{}
	cfg := inproc.DefaultConfig()
	if deliveryMode != "" {
		cfg.MQTT.DeliveryMode = deliveryMode
	}
	b, err := inproc.Start(inproc.Options{Cfg: cfg, Server: []server.Options{server.WithPlugin(p)}, Rec: rec, Gate: gate})
	if err != nil {
		fatal("broker start: " + err.Error())
	}
	// wait for the accept loop
	for i := 0; i < 100; i++ {
		c, err := net.DialTimeout("tcp", b.Addr, time.Second)
		if err == nil {
			probe := c.LocalAddr().String()
			c.Close()
			// ... and until the broker is done with the probe connection (scripts count accepted connections)
			for j := 0; hooks && j < 200 && !hookSeen(rec, "closed", probe); j++ {
				time.Sleep(5 * time.Millisecond)
			}
			break
		}
		time.Sleep(10 * time.Millisecond)
	}
	return &bench{b: b, p: p, rec: rec}
}

func fatal(s string) {
	res.Fatal = s
	out, _ := json.Marshal(res)
	os.Stdout.Write(out)
	os.Stdout.WriteString("\n")
	os.Exit(0)
}

// lifecycle returns the recorded events without the per-message ones (they carry payloads and are not part of C15).
func lifecycle(rec *inproc.Recorder) []inproc.Event {
	var out []inproc.Event
	for _, e := range rec.Events() {
		if e["e"] == "hook" && (e["h"] == "enqueue" || e["h"] == "terminated") {
			continue
		}
		out = append(out, e)
	}
	return out
}

func (bn *bench) stop(timeout time.Duration) {
	if bn.stopped {
		return
	}
	bn.stopped = true
	bn.rec.Log(inproc.Event{"e": "stopcall"})
	t0 := time.Now()
	// Srv.Stop directly (not inproc's Broker.Stop, which also forgets the broker): hook events after Stop are evidence
	ctx, cancel := context.WithTimeout(context.Background(), timeout)
	second := make(chan error, 1)
	if bn.twice {
		// a second, concurrent Stop: stopOnce makes it wait for the first and do nothing (Unload / OnStop exactly once)
		go func() { second <- bn.b.Srv.Stop(ctx) }()
	}
	bn.stopErr = bn.b.Srv.Stop(ctx)
	if bn.twice {
		select {
		case <-second:
		case <-time.After(timeout + time.Second):
			div("second-stop-call-hangs", "a second concurrent call of Stop did not return", nil)
		}
	}
	cancel()
	bn.stopDur = time.Since(t0)
	bn.rec.Log(inproc.Event{"e": "stopret", "err": bn.stopErr != nil})
}

func hookSeen(rec *inproc.Recorder, h, conn string) bool {
	for _, e := range rec.Events() {
		if e["e"] == "hook" && e["h"] == h && (conn == "" || e["conn"] == conn) {
			return true
		}
	}
	return false
}

func countHook(rec *inproc.Recorder, h string) int {
	n := 0
	for _, e := range rec.Events() {
		if e["e"] == "hook" && e["h"] == h {
			n++
		}
	}
	return n
}

// afterStop evaluates the Stop clauses of C15.
func (bn *bench) afterStop(sc *Scenario, label string) {
	setStat("stop_ms", bn.stopDur.Milliseconds())
	gs, raw := settleGoroutines(1500 * time.Millisecond)
	cause := causes(gs)
	if bn.stopErr != nil {
		res.Goroutines = raw
		div("stop-timeout:"+cause, fmt.Sprintf("%s: Stop did not return within %d ms (%v); goroutines of the broker still parked: %s",
			label, sc.StopMs, bn.stopErr, cause), gs)
	} else if len(gs) > 0 {
		res.Goroutines = raw
		div("alive-after-stop:"+cause, fmt.Sprintf("%s: Stop returned nil after %d ms but %d goroutines of the broker are still alive: %s",
			label, bn.stopDur.Milliseconds(), len(gs), cause), gs)
	}
	if bn.stopErr == nil {
		u, o := atomic.LoadInt32(&bn.p.unloads), atomic.LoadInt32(&bn.p.onstops)
		if u != 1 || o != 1 {
			div(fmt.Sprintf("stop-hooks:unload=%d,onstop=%d", u, o), fmt.Sprintf("%s: Stop returned nil; plugin Unload ran %d times, OnStop %d times (demanded: once each)", label, u, o), nil)
		}
		if n := countHook(bn.rec, "stop.end"); n != 1 {
			div(fmt.Sprintf("stop-end-events:%d", n), label+": stop.end lifecycle event not exactly once", nil)
		}
	}
}

// ---------------------------------------------------------------- scripted peer

type request struct {
	kind string
	at   time.Time
	done bool
}

type peer struct {
	spec      ConnSpec
	c         *mw.Client
	local     string
	mu        sync.Mutex
	stalled   bool
	weClosed  bool
	eof       bool
	eofAt     time.Time
	afterDisc bool
	sentBad   bool
	tail      int // PINGREQ packets to append to the next packet in the same write
	reqs      []*request
	unacked   []uint16
	discCode  int
	rdDone    chan struct{}
	pid       uint16
	wblocked  bool
}

func (p *peer) topic() string { return "c15/" + p.spec.CID }

func (p *peer) answer(kind string) {
	p.mu.Lock()
	for _, r := range p.reqs {
		if r.kind == kind && !r.done {
			r.done = true
			break
		}
	}
	p.mu.Unlock()
}

func (p *peer) reader() {
	defer close(p.rdDone)
	for {
		p.mu.Lock()
		st := p.stalled
		p.mu.Unlock()
		if st {
			return
		}
		pk, err := p.c.Recv(100 * time.Millisecond)
		if err != nil {
			if mw.IsTimeout(err) {
				continue
			}
			p.mu.Lock()
			p.eof, p.eofAt = true, time.Now()
			p.mu.Unlock()
			return
		}
		switch pk.Type {
		case mw.CONNACK:
			p.answer("connect")
			p.answer("badconnect")
		case mw.PINGRESP:
			p.answer("ping")
		case mw.PUBACK:
			p.answer("ok")
		case mw.SUBACK:
			p.answer("sub")
		case mw.PUBLISH:
			if pk.QoS > 0 {
				p.mu.Lock()
				p.unacked = append(p.unacked, pk.PacketID)
				p.mu.Unlock()
			}
		case mw.DISCONNECT:
			p.mu.Lock()
			p.discCode = int(pk.Code)
			p.mu.Unlock()
		}
	}
}

func (p *peer) send(pk *mw.Packet, raw []byte) {
	p.c.Conn.SetWriteDeadline(time.Now().Add(400 * time.Millisecond))
	var err error
	if p.tail > 0 {
		if raw == nil {
			pk.Version = p.spec.Ver
			if b, e := mw.Encode(pk); e == nil {
				raw = b
			}
		}
		if raw != nil {
			raw = append([]byte(nil), raw...)
			for i := 0; i < p.tail; i++ {
				raw = append(raw, 0xC0, 0x00)
			}
		}
		p.tail = 0
	}
	if raw != nil {
		err = p.c.SendRaw(raw)
	} else {
		err = p.c.Send(pk)
	}
	if err != nil && mw.IsTimeout(err) {
		p.wblocked = true
	}
}

func (p *peer) expect(kind string) *request {
	r := &request{kind: kind, at: time.Now()}
	p.mu.Lock()
	p.reqs = append(p.reqs, r)
	p.mu.Unlock()
	return r
}

// await waits for the answer of r, the end of the connection, or the watchdog.
func (p *peer) await(r *request, d time.Duration) bool {
	deadline := time.Now().Add(d)
	for time.Now().Before(deadline) {
		p.mu.Lock()
		done, eof, st := r.done, p.eof, p.stalled
		p.mu.Unlock()
		if done || eof || st {
			return done
		}
		time.Sleep(2 * time.Millisecond)
	}
	return false
}

func (p *peer) nextPid() uint16 {
	p.pid++
	if p.pid == 0 {
		p.pid = 1
	}
	return p.pid
}

func dial(addr string, smallbuf bool) (net.Conn, error) {
	d := net.Dialer{Timeout: 2 * time.Second}
	if smallbuf {
		d.Control = func(network, address string, c syscall.RawConn) error {
			return c.Control(func(fd uintptr) { syscall.SetsockoptInt(int(fd), syscall.SOL_SOCKET, syscall.SO_RCVBUF, 4096) })
		}
	}
	return d.Dial("tcp", addr)
}

func connectPacket(s ConnSpec) *mw.Packet {
	pk := mw.Connect(s.Ver, s.CID, s.Clean, s.KeepAlive)
	if s.Ver == mw.V5 {
		ps := &mw.Props{}
		if s.Expiry > 0 {
			ps.SessionExpiry = mw.U32(s.Expiry)
		}
		pk.Props = ps
	}
	if s.WillDelay > 0 {
		var wp *mw.Props
		if s.Ver == mw.V5 {
			wp = &mw.Props{WillDelay: mw.U32(s.WillDelay)}
		}
		pk.WithWill("c15/will/"+s.CID, []byte("w"), 0, false, wp)
	}
	return pk
}

func runScript(sc *Scenario) {
	reqTO := time.Duration(sc.RequestMs) * time.Millisecond
	stopTO := time.Duration(sc.StopMs) * time.Millisecond
	bn := startBroker(nil)
	peers := map[int]*peer{}
	spec := map[int]ConnSpec{}
	for _, c := range sc.Conns {
		spec[c.K] = c
	}
	big := bytes.Repeat([]byte("x"), 32<<10)
	for si, st := range sc.Steps {
		n := st.N
		if n <= 0 {
			n = 1
		}
		p := peers[st.K]
		bn.rec.Log(inproc.Event{"e": "step", "i": si, "op": st.Op, "k": st.K, "kind": st.Kind, "n": n})
		switch st.Op {
		case "connect":
			c, err := dial(bn.b.Addr, spec[st.K].SmallBuf)
			if err != nil {
				if bn.stopped {
					note("step %d: dial refused after Stop", si)
					continue
				}
				fatal("dial: " + err.Error())
			}
			p = &peer{spec: spec[st.K], c: mw.NewClient(c, spec[st.K].Ver), local: c.LocalAddr().String(), rdDone: make(chan struct{}), discCode: -1}
			peers[st.K] = p
			go p.reader()
			time.Sleep(20 * time.Millisecond) // let the broker accept and start serve()
		case "send":
			if p == nil || p.weClosed {
				continue
			}
			for i := 0; i < n; i++ {
				if st.Tail > 0 && (st.Kind == "bad" || st.Kind == "mal" || st.Kind == "disc" || st.Kind == "badconnect") {
					p.tail = st.Tail
				}
				switch st.Kind {
				case "connect":
					r := p.expect("connect")
					p.send(connectPacket(p.spec), nil)
					p.mu.Lock()
					st := p.stalled
					p.mu.Unlock()
					if st || p.await(r, reqTO) {
						// the model's peer owns a subscription to its own topic (kinds pub / ok, flood)
						r2 := p.expect("sub")
						p.send(mw.Subscribe(p.nextPid(), mw.SubTopic{Filter: p.topic(), QoS: 1}), nil)
						p.await(r2, reqTO)
					}
				case "badconnect":
					r := p.expect("badconnect")
					p.send(mw.Pingreq(), nil) // first packet is not CONNECT
					p.await(r, reqTO/4)
				case "ping":
					r := p.expect("ping")
					p.send(mw.Pingreq(), nil)
					if !p.sentBad && !p.afterDisc && !st.NoWait { // after an error / DISCONNECT the model's peer just keeps sending
						p.await(r, reqTO/4)
					}
				case "pub":
					pl := []byte("p")
					if p.stalled {
						pl = big
					}
					p.send(mw.Publish(p.topic(), 0, false, 0, pl), nil)
				case "ok":
					r := p.expect("ok")
					p.send(mw.Publish(p.topic(), 1, false, p.nextPid(), []byte("o")), nil)
					if !p.sentBad && !p.afterDisc && !st.NoWait {
						p.await(r, reqTO/4)
					}
				case "ack":
					p.mu.Lock()
					ids := p.unacked
					p.unacked = nil
					p.mu.Unlock()
					for _, id := range ids {
						p.send(mw.Ack(mw.PUBACK, id, 0), nil)
					}
				case "bad":
					p.mu.Lock()
					p.sentBad = true
					p.mu.Unlock()
					if p.spec.Ver == mw.V5 {
						// topic alias above the broker's maximum: *codes.Error TopicAliasInvalid, DISCONNECT 0x94 is owed
						p.send(mw.Publish(p.topic(), 0, false, 0, []byte("b")).WithProps(&mw.Props{TopicAlias: mw.U16(60000)}), nil)
					} else {
						p.send(nil, []byte{0xF0, 0x00}) // AUTH on a v3 connection: protocol error
					}
				case "mal":
					p.mu.Lock()
					p.sentBad = true
					p.mu.Unlock()
					p.send(nil, []byte{0x80, 0x00}) // SUBSCRIBE with reserved flags 0: malformed
				case "disc":
					p.mu.Lock()
					p.afterDisc = true
					p.mu.Unlock()
					p.send(mw.Disconnect(0), nil)
				default:
					fatal("unknown send kind " + st.Kind)
				}
			}
		case "stall":
			if p == nil {
				continue
			}
			p.mu.Lock()
			p.stalled = true
			p.mu.Unlock()
			<-p.rdDone
		case "flood":
			// fill the path broker -> peer: big QoS0 publications to the own subscription until our own writes block
			if p == nil || p.weClosed {
				continue
			}
			max := n
			if max < 2 {
				max = 400 // 400 x 32 KiB: more than the socket buffers of both ends plus the 8 slots of `out`; the rest stays queued
			}
			sentN := 0
			for i := 0; i < max && !p.wblocked; i++ {
				p.c.Conn.SetWriteDeadline(time.Now().Add(3 * time.Second))
				if err := p.c.Send(mw.Publish(p.topic(), 0, false, 0, big)); err != nil {
					p.wblocked = true
				}
				sentN++
			}
			if p.wblocked {
				note("flood: own write blocked after %d publications", sentN)
			}
			p.wblocked = false
			setStat("flood_sent", sentN)
			time.Sleep(300 * time.Millisecond)
		case "close":
			if p == nil || p.weClosed {
				continue
			}
			p.mu.Lock()
			p.weClosed = true
			p.mu.Unlock()
			p.c.Close()
		case "armlate":
			bn.p.arm()
		case "stop":
			bn.stop(stopTO)
			// a connection parked in its OnAccept hook (armlate) continues now: Stop has returned
			if bn.p.release() {
				time.Sleep(400 * time.Millisecond) // let the late connection run into whatever it runs into
			}
			bn.afterStop(sc, "scripted Stop")
		case "api":
			switch st.Kind {
			case "terminate":
				bn.b.Srv.ClientService().TerminateSession(spec[st.K].CID)
			default:
				bn.b.Srv.Publisher().Publish(&gmqtt.Message{Topic: "c15/" + spec[st.K].CID, Payload: []byte("a"), QoS: 1})
			}
		case "sleep":
			time.Sleep(time.Duration(st.Ms) * time.Millisecond)
		case "settle":
			// wait until the broker's goroutines are parked (nothing runnable in two samples) -- the model's Stop / close
			// happens in a state the peer's earlier packets have led to, however long the machine takes to get there
			calm := 0
			for t0 := time.Now(); calm < 2 && time.Since(t0) < 10*time.Second; {
				gs, _ := gmqttGoroutines()
				busy := false
				for _, g := range gs {
					if g.State == "runnable" || g.State == "running" || g.State == "syscall" {
						busy = true
					}
				}
				if busy {
					calm = 0
				} else {
					calm++
				}
				time.Sleep(40 * time.Millisecond)
			}
		case "dump":
			gs, _ := gmqttGoroutines()
			for _, g := range gs {
				note("step %d goroutine %s [%s] %s %s", si, g.Class, g.State, g.Top, g.Where)
			}
		default:
			fatal("unknown op " + st.Op)
		}
		if st.Ms > 0 && st.Op != "sleep" {
			time.Sleep(time.Duration(st.Ms) * time.Millisecond)
		}
	}

	// ---- epilogue: bounded answers, closed sockets lead to `closed`
	deadline := time.Now().Add(reqTO)
	for time.Now().Before(deadline) {
		pending := false
		for _, p := range peers {
			p.mu.Lock()
			if !p.eof && !p.stalled && !p.weClosed {
				for _, r := range p.reqs {
					if !r.done && !p.afterDisc {
						pending = true
					}
				}
				if p.sentBad {
					pending = true
				}
			}
			p.mu.Unlock()
		}
		if !pending {
			break
		}
		time.Sleep(10 * time.Millisecond)
	}
	for k, p := range peers {
		p.mu.Lock()
		if !p.eof && !p.stalled && !p.weClosed && !bn.stopped {
			var un []string
			for _, r := range p.reqs {
				if !r.done && !p.afterDisc {
					un = append(un, r.kind)
				}
			}
			ver := fmt.Sprintf("v%d", p.spec.Ver)
			if p.sentBad {
				div("no-close-after-protocol-error:"+ver, fmt.Sprintf("connection %d (%s): %d ms after a packet that is a protocol error the broker has neither closed the connection nor answered; unanswered requests: %v",
					k, ver, sc.RequestMs, un), nil)
			} else if len(un) > 0 {
				// why?  goroutines of the broker parked somewhere they should not be (a connection idling in its socket read is normal)
				gs, raw := gmqttGoroutines()
				var stuck []gor
				for _, g := range gs {
					if g.Root && g.Class != "readloop-in-socket-read" && !strings.HasPrefix(g.Class, "service:") {
						stuck = append(stuck, g)
					}
				}
				sig := "unanswered:" + strings.Join(un, ",") + ":" + ver
				if len(stuck) > 0 {
					sig += ":" + causes(stuck)
					res.Goroutines = raw
				}
				div(sig, fmt.Sprintf("connection %d (%s): no answer to %v within %d ms and the connection is still open; parked: %s", k, ver, un, sc.RequestMs, causes(stuck)), stuck)
			}
		}
		p.mu.Unlock()
	}
	// every socket that is closed (by us, or by the broker: EOF seen) must lead to the `closed` event
	time.Sleep(50 * time.Millisecond)
	var notClosed []string
	dl := time.Now().Add(reqTO)
	for {
		notClosed = nil
		for k, p := range peers {
			p.mu.Lock()
			sockClosed := p.weClosed || p.eof
			p.mu.Unlock()
			if sockClosed && !hookSeen(bn.rec, "closed", p.local) {
				notClosed = append(notClosed, fmt.Sprint(k))
			}
		}
		if len(notClosed) == 0 || time.Now().After(dl) {
			break
		}
		time.Sleep(20 * time.Millisecond)
	}
	if len(notClosed) > 0 && !bn.stopped {
		sort.Strings(notClosed)
		gs, raw := gmqttGoroutines()
		var mine []gor
		for _, g := range gs {
			if !strings.HasPrefix(g.Class, "service:") {
				mine = append(mine, g)
			}
		}
		res.Goroutines = raw
		div("closed-not-signalled:"+causes(mine), fmt.Sprintf("socket of connection(s) %v closed, no `closed` lifecycle event %d ms later; parked: %s", notClosed, sc.RequestMs, causes(mine)), mine)
	}

	// ---- final: peers go away, Stop (if the script had none), nothing may be left
	for _, p := range peers {
		p.mu.Lock()
		wc := p.weClosed
		p.weClosed = true
		p.mu.Unlock()
		if !wc {
			p.c.Close()
		}
	}
	if !bn.stopped && !sc.NoFinalStop {
		time.Sleep(100 * time.Millisecond)
		bn.stop(stopTO)
		bn.afterStop(sc, "Stop after all peers closed")
	} else if bn.stopped {
		gs, raw := settleGoroutines(1500 * time.Millisecond)
		if len(gs) > 0 {
			if res.Goroutines == "" {
				res.Goroutines = raw
			}
			div("alive-after-stop-and-peers-closed:"+causes(gs), fmt.Sprintf("Stop was called and every peer closed its socket; %d goroutines of the broker are still alive: %s", len(gs), causes(gs)), gs)
		}
	}
	res.Trace = lifecycle(bn.rec)
}

// ---------------------------------------------------------------- schedule gating: the lockDuplicatedID window

func runGate(sc *Scenario) {
	reqTO := time.Duration(sc.RequestMs) * time.Millisecond
	var mu sync.Mutex
	waiting := 0
	release := make(chan struct{})
	armed := int32(0)
	gate := func(point string, kv map[string]interface{}) {
		if point != "takeover.unlocked" || atomic.LoadInt32(&armed) == 0 {
			return
		}
		mu.Lock()
		waiting++
		if waiting == 2 {
			close(release)
		}
		mu.Unlock()
		select {
		case <-release:
		case <-time.After(reqTO):
		}
	}
	bn := startBroker(gate)
	s := sc.Conns[0]
	// a stored session without online client
	c0, err := mw.Dial(bn.b.Addr, s.Ver, 2*time.Second)
	if err != nil {
		fatal(err.Error())
	}
	c0.Send(connectPacket(s))
	if _, _, err := c0.RecvType(mw.CONNACK, reqTO); err != nil {
		fatal("preamble connack: " + err.Error())
	}
	c0.Send(mw.Disconnect(0))
	c0.Close()
	for i := 0; i < 200 && !hookSeen(bn.rec, "closed", ""); i++ {
		time.Sleep(5 * time.Millisecond)
	}
	atomic.StoreInt32(&armed, 1)
	var wg sync.WaitGroup
	cl := make([]*mw.Client, 2)
	got := make([]bool, 2)
	for i := 0; i < 2; i++ {
		wg.Add(1)
		go func(i int) {
			defer wg.Done()
			c, err := mw.Dial(bn.b.Addr, s.Ver, 2*time.Second)
			if err != nil {
				return
			}
			cl[i] = c
			c.Send(connectPacket(s))
			if _, _, err := c.RecvType(mw.CONNACK, 2*reqTO); err == nil {
				got[i] = true
			}
		}(i)
	}
	wg.Wait()
	time.Sleep(100 * time.Millisecond)
	// C05: between register and unregister events at most one connection per client id
	live := map[string]string{}
	for _, e := range bn.rec.Events() {
		if e["e"] != "hook" {
			continue
		}
		cid, _ := e["cid"].(string)
		conn, _ := e["conn"].(string)
		switch e["h"] {
		case "register":
			if o, ok := live[cid]; ok && o != conn {
				div("c05:two-registered-connections-one-client-id:lockDuplicatedID-relock-window",
					fmt.Sprintf("client id %q: connection %s registered while %s was still registered (both CONNECTs passed the unlock/lock window of lockDuplicatedID with a stored session and no online client); CONNACKs received: %v", cid, conn, o, got), nil)
			}
			live[cid] = conn
		case "unregister":
			if live[cid] == conn {
				delete(live, cid)
			}
		}
	}
	for _, c := range cl {
		if c != nil {
			c.Close()
		}
	}
	time.Sleep(100 * time.Millisecond)
	bn.stop(time.Duration(sc.StopMs) * time.Millisecond)
	bn.afterStop(sc, "Stop after the gated CONNECTs")
	res.Trace = lifecycle(bn.rec)
}

// ---------------------------------------------------------------- storm

type stormClient struct {
	i    int
	rng  *rand.Rand
	addr string
	bn   *bench
	sc   *Scenario
}

func (s *stormClient) run(stopping *int32, wg *sync.WaitGroup) {
	defer wg.Done()
	reqTO := time.Duration(s.sc.RequestMs) * time.Millisecond
	var c *mw.Client
	var cid string
	var ver byte
	var pid uint16
	willy := false
	nfresh := 0
	closeConn := func() {
		if c != nil {
			c.Close()
			c = nil
		}
	}
	defer closeConn()
	// request sends pk and waits for an answer of type want; false = connection gone (EOF), which is an allowed outcome
	request := func(pk *mw.Packet, want byte, what string) bool {
		t0 := time.Now()
		if err := c.Send(pk); err != nil {
			closeConn()
			return false
		}
		stat("requests", 1)
		for {
			left := reqTO - time.Since(t0)
			if left <= 0 {
				if atomic.LoadInt32(stopping) == 0 {
					div("unanswered:"+what, fmt.Sprintf("storm client %d (%s, v%d): no %s and no end of connection within %d ms", s.i, cid, ver, mw.TypeName(want), s.sc.RequestMs), nil)
				} else {
					// Stop is in progress: the connection must at least be closed by Stop's deadline; judged by the Stop clauses
					stat("pending_at_stop", 1)
				}
				closeConn()
				return false
			}
			p, err := c.Recv(left)
			if err != nil {
				if mw.IsTimeout(err) {
					continue
				}
				stat("eof", 1)
				closeConn()
				return false
			}
			switch {
			case p.Type == want:
				stat("answered", 1)
				return true
			case p.Type == mw.PUBLISH && p.QoS == 1:
				if s.rng.Intn(4) > 0 {
					c.Send(mw.Ack(mw.PUBACK, p.PacketID, 0))
				}
			case p.Type == mw.PUBLISH && p.QoS == 2:
				c.Send(mw.Ack(mw.PUBREC, p.PacketID, 0))
			case p.Type == mw.PUBREL:
				c.Send(mw.Ack(mw.PUBCOMP, p.PacketID, 0))
			case p.Type == mw.DISCONNECT:
				stat("srv_disconnect", 1)
			}
		}
	}
	topics := []string{"s/a", "s/b", "s/c"}
	for op := 0; op < s.sc.Storm.Ops; op++ {
		if atomic.LoadInt32(stopping) != 0 {
			// Stop has been called: keep the connection (if any) open until the driver has looked at what survived
			for atomic.LoadInt32(stopping) != 2 {
				time.Sleep(5 * time.Millisecond)
			}
			return
		}
		if c == nil {
			conn, err := net.DialTimeout("tcp", s.addr, time.Second)
			if err != nil {
				if atomic.LoadInt32(stopping) != 0 {
					return
				}
				time.Sleep(5 * time.Millisecond)
				continue
			}
			ver = []byte{mw.V311, mw.V5, mw.V5, mw.V31}[s.rng.Intn(4)]
			cid = fmt.Sprintf("id%d", s.rng.Intn(s.sc.Storm.IDs)) // few ids: same-id CONNECTs collide
			if s.rng.Intn(100) < s.sc.Storm.Fresh {
				nfresh++
				cid = fmt.Sprintf("fresh%d_%d", s.i, nfresh)
			}
			c = mw.NewClient(conn, ver)
			spec := ConnSpec{Ver: ver, CID: cid, Clean: s.rng.Intn(2) == 0}
			willy = s.rng.Intn(100) < s.sc.Storm.Wills
			if willy {
				ver = mw.V5
				c = mw.NewClient(conn, ver)
				spec = ConnSpec{Ver: ver, CID: cid, Clean: false, Expiry: 30, WillDelay: uint32(1 + s.rng.Intn(2))}
			}
			if ver == mw.V5 && s.rng.Intn(2) == 0 {
				spec.Expiry = 30
				if s.rng.Intn(2) == 0 {
					// a delayed will: killed connections leave a will timer behind, a quick return with the same id cancels it
					spec.WillDelay = uint32(1 + s.rng.Intn(2))
				}
			}
			stat("connects", 1)
			if !request(connectPacket(spec), mw.CONNACK, "CONNACK") {
				continue
			}
			continue
		}
		pid++
		if pid == 0 {
			pid = 1
		}
		r := s.rng.Intn(20)
		if willy && r < 14 {
			r = 18 + r%2 // mostly killed at once: the will timer starts, the next connection with this id cancels it
			if r == 18 {
				r = 19
			}
		}
		switch {
		case r < 4:
			request(mw.Subscribe(pid, mw.SubTopic{Filter: topics[s.rng.Intn(3)], QoS: byte(s.rng.Intn(3))}), mw.SUBACK, "SUBACK")
		case r < 8:
			if err := c.Send(mw.Publish(topics[s.rng.Intn(3)], 0, false, 0, []byte("q0"))); err != nil {
				closeConn()
			}
		case r < 11:
			request(mw.Publish(topics[s.rng.Intn(3)], 1, false, pid, []byte("q1")), mw.PUBACK, "PUBACK")
		case r < 13:
			if request(mw.Publish(topics[s.rng.Intn(3)], 2, false, pid, []byte("q2")), mw.PUBREC, "PUBREC") {
				request(mw.Ack(mw.PUBREL, pid, 0), mw.PUBCOMP, "PUBCOMP")
			}
		case r < 15:
			request(mw.Pingreq(), mw.PINGRESP, "PINGRESP")
		case r < 16:
			request(mw.Unsubscribe(pid, topics[s.rng.Intn(3)]), mw.UNSUBACK, "UNSUBACK")
		case r < 18:
			c.Send(mw.Disconnect(0))
			closeConn()
		default:
			closeConn() // killed
		}
	}
}

func runStorm(sc *Scenario) {
	bn := startBroker(nil)
	bn.twice = sc.Seed%2 == 1
	rng := rand.New(rand.NewSource(sc.Seed))
	var stopping int32
	var wg, awg sync.WaitGroup
	for i := 0; i < sc.Storm.Clients; i++ {
		wg.Add(1)
		go (&stormClient{i: i, rng: rand.New(rand.NewSource(sc.Seed*1000 + int64(i))), addr: bn.b.Addr, bn: bn, sc: sc}).run(&stopping, &wg)
	}
	srv := bn.b.Srv
	for a := 0; a < sc.Storm.API; a++ {
		awg.Add(1)
		go func(a int) {
			defer awg.Done()
			defer func() {
				if r := recover(); r != nil {
					div("panic-in-api-call", fmt.Sprintf("administrative call panicked: %v", r), nil)
				}
			}()
			r := rand.New(rand.NewSource(sc.Seed*7919 + int64(a)))
			for atomic.LoadInt32(&stopping) != 2 {
				cid := fmt.Sprintf("id%d", r.Intn(sc.Storm.IDs))
				t0 := time.Now()
				switch r.Intn(6) {
				case 0:
					srv.Publisher().Publish(&gmqtt.Message{Topic: "s/a", Payload: []byte("api"), QoS: byte(r.Intn(3))})
				case 1:
					srv.SubscriptionService().Subscribe(cid, &gmqtt.Subscription{TopicFilter: "s/b", QoS: 1})
				case 2:
					srv.SubscriptionService().Unsubscribe(cid, "s/b")
				case 3:
					srv.ClientService().TerminateSession(cid)
				case 4:
					srv.StatsManager().GetGlobalStats()
					srv.StatsManager().GetClientStats(cid)
				case 5:
					srv.ClientService().GetClient(cid)
					srv.ClientService().IterateClient(func(server.Client) bool { return true })
				}
				if d := time.Since(t0); d > time.Duration(sc.RequestMs)*time.Millisecond {
					div("api-call-slow", fmt.Sprintf("an administrative call took %v", d), nil)
				}
				stat("api_calls", 1)
				time.Sleep(time.Duration(r.Intn(300)) * time.Microsecond)
			}
		}(a)
	}
	at := sc.Storm.StopLoMs + rng.Intn(sc.Storm.StopHiMs-sc.Storm.StopLoMs+1)
	setStat("stop_at_ms", at)
	time.Sleep(time.Duration(at) * time.Millisecond)
	atomic.StoreInt32(&stopping, 1)
	bn.stop(time.Duration(sc.StopMs) * time.Millisecond)
	// What is alive at the instant Stop returned?  The hook log tells for every connection that has done anything:
	// never registered / registered while Stop ran / registered before Stop began.  (The clients keep their sockets open.)
	un, late, reg := unfinishedConns(bn.rec)
	if len(reg) > 0 && bn.stopErr == nil {
		time.Sleep(100 * time.Millisecond) // a connection that was closing by itself: its `closed` event is microseconds away
		_, _, reg = unfinishedConns(bn.rec)
	}
	setStat("conns_alive_at_stop_return_never_registered", len(un))
	setStat("conns_alive_at_stop_return_registered_during_stop", len(late))
	setStat("conns_alive_at_stop_return_registered_before_stop", len(reg))
	gs, raw := settleGoroutines(1200 * time.Millisecond)
	atomic.StoreInt32(&stopping, 2)
	onlyConn := true
	for _, g := range gs {
		if strings.HasPrefix(g.Class, "service:") || strings.HasPrefix(g.Class, "other:") || g.Class == "will-timer-pending" {
			onlyConn = false
		}
	}
	switch {
	case bn.stopErr != nil:
		res.Goroutines = raw
		div("stop-timeout:"+causes(gs), fmt.Sprintf("storm: Stop did not return within %d ms: %v; parked: %s", sc.StopMs, bn.stopErr, causes(gs)), gs)
	case len(reg) > 0:
		res.Goroutines = raw
		div("alive-after-stop:registered-connection:"+causes(gs), fmt.Sprintf("storm: Stop returned nil but %d connections that were registered before Stop began are not closed: %v", len(reg), reg), gs)
	case len(un)+len(late) > 0 || (len(gs) > 0 && onlyConn):
		res.Goroutines = raw
		div("alive-after-stop:readloop-in-socket-read", fmt.Sprintf("storm: when Stop returned nil, %d connections that were not in srv.clients when Stop looked (%d registered while Stop ran, %d had not registered) had been neither closed nor awaited; %d goroutines of such connections still alive 1.2 s later",
			len(un)+len(late), len(late), len(un), len(gs)), map[string]interface{}{"never_registered": un, "registered_during_stop": late, "goroutines": gs})
	case len(gs) > 0:
		res.Goroutines = raw
		div("alive-after-stop:"+causes(gs), fmt.Sprintf("storm: Stop returned nil but goroutines of the broker are alive: %s", causes(gs)), gs)
	}
	if bn.stopErr == nil {
		u, o := atomic.LoadInt32(&bn.p.unloads), atomic.LoadInt32(&bn.p.onstops)
		if u != 1 || o != 1 {
			div(fmt.Sprintf("stop-hooks:unload=%d,onstop=%d", u, o), fmt.Sprintf("storm: Unload ran %d times, OnStop %d times", u, o), nil)
		}
	}
	setStat("stop_ms", bn.stopDur.Milliseconds())
	wg.Wait()
	awg.Wait()
	// every client has closed its socket now: nothing at all may be left
	gs, raw = settleGoroutines(2 * time.Second)
	if len(gs) > 0 {
		if res.Goroutines == "" {
			res.Goroutines = raw
		}
		div("alive-after-stop-and-peers-closed:"+causes(gs), fmt.Sprintf("storm: after Stop and after every client closed its socket %d goroutines of the broker are alive: %s", len(gs), causes(gs)), gs)
	}
	res.Trace = lifecycle(bn.rec)
}

// ---------------------------------------------------------------- pairs (lock-order workload)

// stopWatched calls Stop from a goroutine of its own: with a lock cycle in the broker Stop itself never returns (it takes
// srv.mu before it looks at its context).  false = Stop is still running after its deadline + 2 s.
func (bn *bench) stopWatched(timeout time.Duration) bool {
	done := make(chan struct{})
	go func() {
		bn.stop(timeout)
		close(done)
	}()
	select {
	case <-done:
		return true
	case <-time.After(timeout + 2*time.Second):
		return false
	}
}

// lockWaiters names, for the goroutines of the broker that wait for a mutex, the function that asks for the lock and the
// function of the broker it was called from (the shape of a lock-order cycle).
func lockWaiters(gs []gor) string {
	set := map[string]bool{}
	for _, g := range gs {
		if !strings.HasPrefix(g.State, "sync.Mutex") && !strings.HasPrefix(g.State, "sync.RWMutex") {
			continue
		}
		k := g.Top
		if len(g.Frames) > 1 {
			k += "<" + g.Frames[1]
		}
		set[k] = true
	}
	var l []string
	for k := range set {
		l = append(l, k)
	}
	sort.Strings(l)
	if len(l) > 8 {
		l = l[:8]
	}
	return strings.Join(l, " | ")
}

// runPairs: W workers, each round a FRESH subscriber id (first touch of the per-client statistics) subscribes to two
// overlapping filters, a FRESH publisher id publishes QoS 1 on a matching topic, the subscriber takes its copies, both
// disconnect.  Sessions are created, subscription-store writers, deliveries (store read lock held while queues and
// statistics are updated) and statistics first touches run against each other all the time.  Every request has the
// request watchdog; API statistics reads run alongside.
func runPairs(sc *Scenario) {
	deliveryMode = []string{"overlap", "onlyonce"}[sc.Seed%2]
	setStat("delivery_mode", deliveryMode)
	bn := startBrokerRec(nil, false)
	reqTO := time.Duration(sc.RequestMs) * time.Millisecond
	var stuck int32
	var wg sync.WaitGroup
	unanswered := func(what string) {
		if atomic.CompareAndSwapInt32(&stuck, 0, 1) {
			gs, raw := gmqttGoroutines()
			res.Goroutines = raw
			lw := lockWaiters(gs)
			sig := "unanswered:" + what
			if lw != "" {
				sig = "unanswered:lock-wait:" + lw
			}
			div(sig, fmt.Sprintf("pairs: no %s and no end of connection within %d ms; goroutines of the broker waiting for a mutex: %s", what, sc.RequestMs, lw), gs)
		}
	}
	open := func(id string, ver byte) *mw.Client {
		conn, err := net.DialTimeout("tcp", bn.b.Addr, time.Second)
		if err != nil {
			return nil
		}
		c := mw.NewClient(conn, ver)
		c.Send(connectPacket(ConnSpec{Ver: ver, CID: id, Clean: true}))
		stat("requests", 1)
		if _, _, err := c.RecvType(mw.CONNACK, reqTO); err != nil {
			if mw.IsTimeout(err) {
				unanswered("CONNACK")
			}
			c.Close()
			return nil
		}
		stat("answered", 1)
		return c
	}
	ask := func(c *mw.Client, pk *mw.Packet, want byte) bool {
		c.Send(pk)
		stat("requests", 1)
		if _, _, err := c.RecvType(want, reqTO); err != nil {
			if mw.IsTimeout(err) {
				unanswered(mw.TypeName(want))
			}
			return false
		}
		stat("answered", 1)
		return true
	}
	for w := 0; w < sc.Storm.Clients; w++ {
		wg.Add(1)
		go func(w int) {
			defer wg.Done()
			for r := 0; r < sc.Storm.Ops && atomic.LoadInt32(&stuck) == 0; r++ {
				pre := fmt.Sprintf("w%d_%d", w, r)
				ver := []byte{mw.V311, mw.V5}[(w+r)%2]
				sub := open("s"+pre, ver)
				if sub == nil {
					continue
				}
				// (the common filter makes every publication on all/x a delivery to every live subscriber: the store's
				// read lock is held over that many queue and statistics updates)
				okS := ask(sub, mw.Subscribe(1, mw.SubTopic{Filter: pre + "/end", QoS: 0}), mw.SUBACK) &&
					ask(sub, mw.Subscribe(2, mw.SubTopic{Filter: pre + "/#", QoS: 1}, mw.SubTopic{Filter: pre + "/a", QoS: 2}), mw.SUBACK) &&
					ask(sub, mw.Subscribe(3, mw.SubTopic{Filter: "$share/g/" + pre + "/a", QoS: 1}, mw.SubTopic{Filter: "all/#", QoS: 0}), mw.SUBACK) &&
					ask(sub, mw.Unsubscribe(4, pre+"/x"), mw.UNSUBACK)
				var pub *mw.Client
				if okS {
					pub = open("p"+pre, mw.V5)
				}
				for i := 0; pub != nil && i < 3; i++ {
					pub.Send(mw.Publish("all/x", 0, false, 0, []byte("y")))
					if !ask(pub, mw.Publish(pre+"/a", 2, false, uint16(7+i), []byte("x")), mw.PUBREC) {
						break
					}
					pub.Send(mw.Ack(mw.PUBREL, uint16(7+i), 0))
					pub.Send(mw.Publish(pre+"/end", 0, false, 0, []byte("e")))
					stat("requests", 1)
					deadline := time.Now().Add(reqTO)
					for {
						p, err := sub.Recv(time.Until(deadline))
						if err != nil {
							if mw.IsTimeout(err) {
								unanswered("delivery")
							}
							i = 3
							break
						}
						switch {
						case p.Type == mw.PUBLISH && p.QoS == 1:
							sub.Send(mw.Ack(mw.PUBACK, p.PacketID, 0))
						case p.Type == mw.PUBLISH && p.QoS == 2:
							sub.Send(mw.Ack(mw.PUBREC, p.PacketID, 0))
						case p.Type == mw.PUBREL:
							sub.Send(mw.Ack(mw.PUBCOMP, p.PacketID, 0))
						}
						if p.Type == mw.PUBLISH && p.Topic == pre+"/end" {
							stat("answered", 1)
							break
						}
					}
				}
				if pub != nil {
					pub.Send(mw.Disconnect(0))
					pub.Close()
				}
				sub.Close()
			}
		}(w)
	}
	stopAPI := make(chan struct{})
	var awg sync.WaitGroup
	for a := 0; a < sc.Storm.API; a++ {
		awg.Add(1)
		go func(a int) {
			defer awg.Done()
			srv := bn.b.Srv
			for i := 0; ; i++ {
				select {
				case <-stopAPI:
					return
				default:
				}
				done := make(chan struct{})
				go func() {
					srv.StatsManager().GetClientStats(fmt.Sprintf("sw%d_%d", a, i%50))
					srv.StatsManager().GetGlobalStats()
					close(done)
				}()
				select {
				case <-done:
					stat("api_calls", 1)
				case <-time.After(reqTO):
					unanswered("statistics read")
					return
				}
				time.Sleep(200 * time.Microsecond)
			}
		}(a)
	}
	wg.Wait()
	close(stopAPI)
	awg.Wait()
	if !bn.stopWatched(time.Duration(sc.StopMs) * time.Millisecond) {
		gs, _ := gmqttGoroutines()
		div("stop-hangs:lock-cycle", fmt.Sprintf("pairs: Stop neither returned nor gave up at its deadline (%d ms + 2 s); waiting for a mutex: %s", sc.StopMs, lockWaiters(gs)), nil)
		return
	}
	if bn.stopErr != nil {
		gs, raw := gmqttGoroutines()
		if res.Goroutines == "" {
			res.Goroutines = raw
		}
		div("stop-timeout:"+causes(gs), fmt.Sprintf("pairs: Stop did not return within %d ms: %v; waiting for a mutex: %s", sc.StopMs, bn.stopErr, lockWaiters(gs)), nil)
	} else {
		gs, raw := settleGoroutines(2 * time.Second)
		if len(gs) > 0 {
			res.Goroutines = raw
			div("alive-after-stop:"+causes(gs), fmt.Sprintf("pairs: Stop returned nil but goroutines of the broker are alive: %s", causes(gs)), gs)
		}
	}
	setStat("stop_ms", bn.stopDur.Milliseconds())
}

// ---------------------------------------------------------------- lockorder (gated script from spec/LockOrder.tla)

// runLockOrder forces the interleaving of a LockOrder.tla counter-example on a real broker:
//
//	deliver    a publication with two subscribers is parked at the `enqueue` hook of the first one: srv.mu and the
//	           subscription store's read lock are held, the second queue.Add (which notifies the statistics) is to come
//	subscribe  another client sends SUBSCRIBE: a writer announces itself on the store's lock
//	third      "touch": a client id never seen before connects (first use of its statistics when CONNACK is written);
//	           "statsread": StatsReader.GetClientStats of an existing client
//	release    the parked delivery goes on
//
// Afterwards every request must be answered within the request watchdog: CONNACK / the statistics call, SUBACK, PUBACK,
// a PINGRESP on every connection, and Stop must return.
func runLockOrder(sc *Scenario) {
	if sc.Conns[0].CID == "pollinfl" {
		runLockOrderPoll(sc)
		return
	}
	reqTO := time.Duration(sc.RequestMs) * time.Millisecond
	parked := make(chan struct{})
	release := make(chan struct{})
	var once sync.Once
	var armed int32
	rec := inproc.NewRecorder()
	p := &plug{}
	cfg := inproc.DefaultConfig()
	cfg.MQTT.DeliveryMode = "overlap" // every matching subscription is served while the store is iterated (under its read lock)
	b, err := inproc.Start(inproc.Options{Cfg: cfg, Server: []server.Options{server.WithPlugin(p)}, Rec: rec,
		TraceGate: func(ev string, kv map[string]interface{}) {
			if ev == "enqueue" && atomic.LoadInt32(&armed) == 1 && kv["topic"] == "lo/t" {
				once.Do(func() {
					close(parked)
					<-release
				})
			}
		}})
	if err != nil {
		fatal("broker start: " + err.Error())
	}
	bn := &bench{b: b, p: p, rec: rec}
	open := func(id string) *mw.Client {
		for i := 0; i < 100; i++ {
			conn, err := net.DialTimeout("tcp", b.Addr, time.Second)
			if err != nil {
				time.Sleep(10 * time.Millisecond)
				continue
			}
			c := mw.NewClient(conn, mw.V5)
			c.Send(connectPacket(ConnSpec{Ver: mw.V5, CID: id, Clean: true}))
			if _, _, err := c.RecvType(mw.CONNACK, reqTO); err != nil {
				fatal("lockorder: setup connection " + id + ": " + err.Error())
			}
			return c
		}
		fatal("lockorder: cannot dial")
		return nil
	}
	s1, s2, w, pb := open("lo-s1"), open("lo-s2"), open("lo-w"), open("lo-p")
	for i, c := range []*mw.Client{s1, s2} {
		c.Send(mw.Subscribe(1, mw.SubTopic{Filter: "lo/t", QoS: 0}))
		if _, _, err := c.RecvType(mw.SUBACK, reqTO); err != nil {
			fatal(fmt.Sprintf("lockorder: setup subscription %d: %v", i, err))
		}
	}
	third := sc.Conns[0].CID // "touch" | "statsread"
	report := func(what string) {
		gs, raw := gmqttGoroutines()
		res.Goroutines = raw
		div("unanswered:lock-cycle:"+third, fmt.Sprintf("lockorder (%s): %s within %d ms after the parked delivery was released; goroutines of the broker waiting for a mutex: %s",
			third, what, sc.RequestMs, lockWaiters(gs)), gs)
	}
	// deliver: parked under srv.mu + the store's read lock
	atomic.StoreInt32(&armed, 1)
	pb.Send(mw.Publish("lo/t", 1, false, 9, []byte("m")))
	select {
	case <-parked:
	case <-time.After(reqTO):
		fatal("lockorder: the delivery never reached the enqueue hook")
	}
	// subscribe: the writer announces itself (there is no hook inside the store: give it time to reach Lock)
	w.Send(mw.Subscribe(2, mw.SubTopic{Filter: "lo/w", QoS: 0}))
	time.Sleep(150 * time.Millisecond)
	// third party
	thirdDone := make(chan string, 1)
	go func() {
		switch third {
		case "touch":
			conn, err := net.DialTimeout("tcp", b.Addr, time.Second)
			if err != nil {
				thirdDone <- "dial: " + err.Error()
				return
			}
			c := mw.NewClient(conn, mw.V5)
			defer c.Close()
			c.Send(connectPacket(ConnSpec{Ver: mw.V5, CID: "lo-fresh", Clean: true}))
			if _, _, err := c.RecvType(mw.CONNACK, 4*reqTO); err != nil {
				thirdDone <- "no CONNACK for a new client id"
				return
			}
			thirdDone <- ""
		default:
			b.Srv.StatsManager().GetClientStats("lo-s1")
			thirdDone <- ""
		}
	}()
	time.Sleep(150 * time.Millisecond)
	close(release)
	stuck := false
	select {
	case msg := <-thirdDone:
		if msg != "" {
			report(msg)
			stuck = true
		}
	case <-time.After(reqTO):
		report(map[string]string{"touch": "no CONNACK for a new client id", "statsread": "StatsReader.GetClientStats did not return"}[third])
		stuck = true
	}
	if !stuck {
		if _, _, err := w.RecvType(mw.SUBACK, reqTO); err != nil {
			report("no SUBACK")
			stuck = true
		}
	}
	if !stuck {
		if _, _, err := pb.RecvType(mw.PUBACK, reqTO); err != nil {
			report("no PUBACK")
			stuck = true
		}
	}
	for _, c := range []*mw.Client{s1, s2, w, pb} {
		if stuck {
			break
		}
		c.Send(mw.Pingreq())
		if _, _, err := c.RecvType(mw.PINGRESP, reqTO); err != nil {
			report("no PINGRESP")
			stuck = true
		}
	}
	stat("requests", 8)
	if !stuck {
		stat("answered", 8)
	}
	if !bn.stopWatched(time.Duration(sc.StopMs) * time.Millisecond) {
		gs, _ := gmqttGoroutines()
		div("stop-hangs:lock-cycle", fmt.Sprintf("lockorder (%s): Stop neither returned nor gave up at its deadline (%d ms + 2 s); waiting for a mutex: %s", third, sc.StopMs, lockWaiters(gs)), nil)
		return
	}
	if bn.stopErr != nil && !stuck {
		gs, _ := gmqttGoroutines()
		div("stop-timeout:"+causes(gs), fmt.Sprintf("lockorder: Stop did not return within %d ms: %v", sc.StopMs, bn.stopErr), nil)
	}
	for _, c := range []*mw.Client{s1, s2, w, pb} {
		c.Close()
	}
	setStat("stop_ms", bn.stopDur.Milliseconds())
}

// ---------------------------------------------------------------- gated persistence (lock order: limiter vs queue)

// "memgated" = the memory persistence whose session queues park in ReadInflight (before the real call, i.e. before the
// queue's mutex is taken) while the harness holds the gate: a scheduler gate at the persistence boundary.
type gatedPersistence struct {
	server.Persistence
}

type gatedQueue struct {
	queue.Store
	cid string
}

var (
	gateMu      sync.Mutex
	gateArmed   string        // client id whose next ReadInflight parks
	gateParked  chan struct{} // closed when it has parked
	gateRelease chan struct{}
)

func (g *gatedPersistence) NewQueueStore(cfg config.Config, n queue.Notifier, clientID string) (queue.Store, error) {
	inner, err := g.Persistence.NewQueueStore(cfg, n, clientID)
	if err != nil {
		return nil, err
	}
	return &gatedQueue{Store: inner, cid: clientID}, nil
}

func (q *gatedQueue) ReadInflight(max uint) ([]*queue.Elem, error) {
	gateMu.Lock()
	hit := gateArmed != "" && gateArmed == q.cid
	var parked, release chan struct{}
	if hit {
		gateArmed = ""
		parked, release = gateParked, gateRelease
	}
	gateMu.Unlock()
	if hit {
		close(parked)
		<-release
	}
	return q.Store.ReadInflight(max)
}

func init() {
	server.RegisterPersistenceFactory("memgated", func(c config.Config) (server.Persistence, error) {
		inner, err := persistence.NewMemory(c)
		if err != nil {
			return nil, err
		}
		return &gatedPersistence{Persistence: inner}, nil
	})
}

// runLockOrderPoll forces the interleaving limiter <-> queue of LockOrder.tla (third party pollinfl):
//
//	a persistent session with a FULL queue whose oldest entry is an in-flight message past inflight_expiry;
//	the client returns: pollInflights parks at the persistence boundary (in ReadInflight, before the queue's mutex);
//	a publication for the session: queue.Add (queue mutex held) drops the expired in-flight entry and releases its
//	packet id (limiter lock);  the parked poll goroutine is released.
//
// Afterwards every request must be answered: PUBACK for the publication, CONNACK for a new client, PINGRESP, Stop.
func runLockOrderPoll(sc *Scenario) {
	reqTO := time.Duration(sc.RequestMs) * time.Millisecond
	rec := inproc.NewRecorder()
	p := &plug{}
	cfg := inproc.DefaultConfig()
	cfg.MQTT.DeliveryMode = "overlap"
	cfg.MQTT.MaxQueuedMsg = 3
	cfg.MQTT.InflightExpiry = time.Second
	cfg.Persistence.Type = "memgated"
	b, err := inproc.Start(inproc.Options{Cfg: cfg, Server: []server.Options{server.WithPlugin(p)}, Rec: rec})
	if err != nil {
		fatal("broker start: " + err.Error())
	}
	bn := &bench{b: b, p: p, rec: rec}
	open := func(id string, clean bool, expiry uint32, to time.Duration) (*mw.Client, error) {
		var lastErr error
		for i := 0; i < 50; i++ {
			conn, err := net.DialTimeout("tcp", b.Addr, time.Second)
			if err != nil {
				lastErr = err
				time.Sleep(10 * time.Millisecond)
				continue
			}
			c := mw.NewClient(conn, mw.V5)
			c.Send(connectPacket(ConnSpec{Ver: mw.V5, CID: id, Clean: clean, Expiry: expiry}))
			if _, _, err := c.RecvType(mw.CONNACK, to); err != nil {
				c.Close()
				return nil, err
			}
			return c, nil
		}
		return nil, lastErr
	}
	must := func(c *mw.Client, err error) *mw.Client {
		if err != nil {
			fatal("lockorder/pollinfl: setup: " + err.Error())
		}
		return c
	}
	s1 := must(open("lo-s", false, 60, reqTO))
	pb := must(open("lo-p", true, 0, reqTO))
	s1.Send(mw.Subscribe(1, mw.SubTopic{Filter: "lo/t", QoS: 1}))
	if _, _, err := s1.RecvType(mw.SUBACK, reqTO); err != nil {
		fatal("lockorder/pollinfl: setup subscription: " + err.Error())
	}
	publish := func(pid uint16, wait bool) bool {
		pb.Send(mw.Publish("lo/t", 1, false, pid, []byte(fmt.Sprintf("m%d", pid))))
		if !wait {
			return true
		}
		_, _, err := pb.RecvType(mw.PUBACK, reqTO)
		return err == nil
	}
	if !publish(1, true) {
		fatal("lockorder/pollinfl: setup publication not acknowledged")
	}
	if _, _, err := s1.RecvType(mw.PUBLISH, reqTO); err != nil { // in flight, never acknowledged
		fatal("lockorder/pollinfl: the subscriber did not get the first message: " + err.Error())
	}
	time.Sleep(1300 * time.Millisecond) // past inflight_expiry
	s1.Close()
	time.Sleep(100 * time.Millisecond)
	if !publish(2, true) || !publish(3, true) { // the queue is full now: [m1 in flight and expired, m2, m3]
		fatal("lockorder/pollinfl: setup publications not acknowledged")
	}
	report := func(what string) {
		gs, raw := gmqttGoroutines()
		res.Goroutines = raw
		div("unanswered:lock-cycle:pollinfl", fmt.Sprintf("lockorder (pollinfl): %s within %d ms after the parked poll goroutine was released; goroutines of the broker waiting for a mutex: %s",
			what, sc.RequestMs, lockWaiters(gs)), gs)
	}
	gateMu.Lock()
	gateArmed, gateParked, gateRelease = "lo-s", make(chan struct{}), make(chan struct{})
	parked, release := gateParked, gateRelease
	gateMu.Unlock()
	s2 := must(open("lo-s", false, 60, reqTO)) // resumes: pollMessageHandler -> pollInflights -> ReadInflight parks
	select {
	case <-parked:
	case <-time.After(reqTO):
		fatal("lockorder/pollinfl: the resumed session never read its in-flight messages")
	}
	publish(4, false) // queue.Add under the queue mutex: full -> drops the expired in-flight m1 -> pl.release
	time.Sleep(200 * time.Millisecond)
	close(release)
	stuck := false
	if _, _, err := pb.RecvType(mw.PUBACK, reqTO); err != nil {
		report("no PUBACK for a publication to the resumed session")
		stuck = true
	}
	if !stuck {
		if c, err := open("lo-new", true, 0, reqTO); err != nil {
			report("no CONNACK for a new client")
			stuck = true
		} else {
			c.Close()
		}
	}
	if !stuck {
		s2.Send(mw.Pingreq())
		if _, _, err := s2.RecvType(mw.PINGRESP, reqTO); err != nil {
			report("no PINGRESP on the resumed connection")
			stuck = true
		}
	}
	stat("requests", 3)
	if !stuck {
		stat("answered", 3)
	}
	if !bn.stopWatched(time.Duration(sc.StopMs) * time.Millisecond) {
		gs, _ := gmqttGoroutines()
		div("stop-hangs:lock-cycle", fmt.Sprintf("lockorder (pollinfl): Stop neither returned nor gave up at its deadline (%d ms + 2 s); waiting for a mutex: %s", sc.StopMs, lockWaiters(gs)), nil)
		return
	}
	for _, c := range []*mw.Client{s2, pb} {
		c.Close()
	}
	setStat("stop_ms", bn.stopDur.Milliseconds())
}

// unfinishedConns: connections that appear in the hook log without a `closed` event: never registered, registered after
// stop.begin, registered before stop.begin.
func unfinishedConns(rec *inproc.Recorder) (unreg, late, reg []string) {
	seen := map[string]bool{}
	closed := map[string]bool{}
	registered := map[string]int{}
	begun := false
	for _, e := range rec.Events() {
		if e["e"] != "hook" {
			continue
		}
		if e["h"] == "stop.begin" {
			begun = true
		}
		conn, _ := e["conn"].(string)
		if conn == "" {
			continue
		}
		seen[conn] = true
		switch e["h"] {
		case "closed":
			closed[conn] = true
		case "register":
			if begun {
				registered[conn] = 2
			} else {
				registered[conn] = 1
			}
		}
	}
	for c := range seen {
		if !closed[c] {
			switch registered[c] {
			case 1:
				reg = append(reg, c)
			case 2:
				late = append(late, c)
			default:
				unreg = append(unreg, c)
			}
		}
	}
	sort.Strings(unreg)
	sort.Strings(late)
	sort.Strings(reg)
	return
}

func main() {
	file := flag.String("scenario", "", "scenario file (JSON); default stdin")
	flag.Parse()
	var data []byte
	var err error
	if *file != "" {
		data, err = os.ReadFile(*file)
	} else {
		var b bytes.Buffer
		_, err = b.ReadFrom(os.Stdin)
		data = b.Bytes()
	}
	if err != nil {
		fmt.Fprintln(os.Stderr, err)
		os.Exit(2)
	}
	sc := &Scenario{}
	if err := json.Unmarshal(data, sc); err != nil {
		fmt.Fprintln(os.Stderr, "scenario:", err)
		os.Exit(2)
	}
	if sc.RequestMs == 0 {
		sc.RequestMs = 2000
	}
	if sc.StopMs == 0 {
		sc.StopMs = 3000
	}
	res.ID = sc.ID
	setStat("gomaxprocs", runtime.GOMAXPROCS(0))
	switch sc.Kind {
	case "script":
		runScript(sc)
	case "gate":
		runGate(sc)
	case "storm":
		runStorm(sc)
	case "pairs":
		runPairs(sc)
	case "lockorder":
		runLockOrder(sc)
	default:
		fmt.Fprintln(os.Stderr, "unknown scenario kind", sc.Kind)
		os.Exit(2)
	}
	out, _ := json.Marshal(res)
	os.Stdout.Write(out)
	os.Stdout.WriteString("\n")
}
