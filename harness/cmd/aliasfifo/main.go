// aliasfifo feeds every input history enumerated by TLC from AliasFifo.tla (all topic sequences up to length
// L, per Topic Alias Maximum) to the real outbound alias manager topicalias/fifo and judges the answer to
// the last Check by the specification's rule `Valid` over the client's view of the connection.
//
// The client view (`bound`: alias -> topic) is an OBSERVATION: it is built from the real answers exactly as
// writeLoop turns them into PUBLISH packets (AliasFifo!After): ~exist /\ alias # 0 (re)binds alias -> topic.
// The judgement is AliasFifo!Valid, nothing else:
//
//	exist  => alias is bound, and bound to exactly this topic
//	~exist => alias = 0 or alias in 1..max
//
// The reference (FIFO) answer printed by TLC is only counted (policy_same / policy_differs); the eviction
// policy is free.
package main

import (
	"encoding/json"
	"flag"
	"fmt"
	"os"
	"sync/atomic"

	"github.com/DrmagicE/gmqtt/config"
	"github.com/DrmagicE/gmqtt/pkg/packets"
	"github.com/DrmagicE/gmqtt/server"
	"github.com/DrmagicE/gmqtt/topicalias/fifo"

	"verifharness/tc"
)

type Trans struct {
	Max int      `json:"max"`
	Pre []string `json:"pre"`
	T   string   `json:"t"`
	Ref struct {
		Alias int  `json:"alias"`
		Exist bool `json:"exist"`
	} `json:"ref"`
}

type step struct {
	T     string `json:"t"`
	Alias uint16 `json:"alias"`
	Exist bool   `json:"exist"`
}

var (
	rep = tc.NewReporter()
	cfg = config.DefaultConfig()
)

func check(m server.TopicAliasManager, t string) (alias uint16, exist bool, err error) {
	defer func() {
		if r := recover(); r != nil {
			err = fmt.Errorf("panic: %v", r)
		}
	}()
	alias, exist = m.Check(&packets.Publish{TopicName: []byte(t), Properties: &packets.Properties{}})
	return
}

// after is AliasFifo!After on the observed client view
func after(bound map[uint16]string, t string, alias uint16, exist bool) {
	if !exist && alias != 0 {
		bound[alias] = t
	}
}

func one(js []byte) {
	var t Trans
	if err := json.Unmarshal(js, &t); err != nil || t.Max < 1 {
		rep.Div("harness", fmt.Sprintf("cannot parse transition: %v", err), js, nil)
		return
	}
	atomic.AddInt64(&rep.N, 1)
	m := fifo.New(cfg, uint16(t.Max), "c")
	bound := map[uint16]string{}
	var obs []step
	for _, p := range t.Pre {
		a, ex, err := check(m, p)
		if err != nil {
			rep.Div("aliasfifo:pre-op-error", fmt.Sprintf("Check(%s) during prefix: %v", p, err), js, nil)
			return
		}
		obs = append(obs, step{p, a, ex})
		after(bound, p, a, ex)
	}
	a, ex, err := check(m, t.T)
	if err != nil {
		rep.Div("aliasfifo:op-error", fmt.Sprintf("max=%d after %v: Check(%s): %v", t.Max, t.Pre, t.T, err), js, obs)
		return
	}
	obs = append(obs, step{t.T, a, ex})
	hist := fmt.Sprintf("max=%d, Check history %v then Check(%s) = (alias %d, exist %v)", t.Max, t.Pre, t.T, a, ex)
	// ---- AliasFifo!Valid(bound, max, t, alias, exist)
	if ex {
		cur, isBound := bound[a]
		switch {
		case a == 0 || int(a) > t.Max:
			rep.Div("aliasfifo:alias-out-of-range", hist+": alias-only PUBLISH with alias outside 1..max", js, obs)
		case !isBound:
			rep.Div("aliasfifo:alias-only-unbound", hist+": alias-only PUBLISH, but no earlier PUBLISH on this connection bound that alias", js, obs)
		case cur != t.T:
			rep.Div("aliasfifo:alias-only-wrong-topic", hist+fmt.Sprintf(": alias-only PUBLISH, but the client has alias %d bound to %q", a, cur), js, obs)
		}
	} else if a != 0 && int(a) > t.Max {
		rep.Div("aliasfifo:alias-out-of-range", hist+": binding PUBLISH with alias outside 1..max", js, obs)
	}
	// ---- informational: same as the reference policy? is an alias used at all?
	if int(a) == t.Ref.Alias && ex == t.Ref.Exist {
		rep.Count("policy_same", 1)
	} else {
		rep.Count("policy_differs", 1)
	}
	if ex {
		rep.Count("alias_only", 1)
		atomic.AddInt64(&rep.NonTriv, 1)
	} else if a != 0 {
		rep.Count("binding", 1)
		if _, re := bound[a]; re {
			rep.Count("rebinding", 1)
			atomic.AddInt64(&rep.NonTriv, 1)
		}
	} else {
		rep.Count("no_alias", 1)
	}
	rep.Sample(js, 3)
}

func main() {
	workers := flag.Int("workers", 0, "")
	raw := flag.Bool("raw", false, "stdin lines are plain JSON (replay) instead of TLA+ string literals")
	flag.Parse()
	if err := tc.Each(os.Stdin, *workers, *raw, nil, one); err != nil {
		fmt.Fprintln(os.Stderr, err)
		os.Exit(2)
	}
	rep.Summary(nil)
}
