// hooks binds Hooks.tla (property C14) to real gmqtt brokers.
//
//	-mode compose   stdin = TLC output of SpecC: one line per (kind, plugin sequence, exposure, core) with the demanded call
//	                log of one event.  For each case: a real broker with recording plugins (server.WithPlugin) and a recording
//	                core hook (server.WithHook), ONE event of that kind triggered by mqttwire clients, recorded call log of
//	                that kind compared with the demanded one (order, exactly once).
//	-mode verdict   stdin = TLC output of SpecV: one line per (state, request, verdict) transition.  For each line: fresh
//	                broker whose core hooks return the scripted verdicts, prefix applied, the pre-state compared (a mismatch means
//	                an earlier transition of the prefix diverged - that one is reported on its own line), request applied, and
//	                response packet, deliveries (independent observer + the subject itself) and the service snapshots
//	                (ClientService, SubscriptionService, RetainedService) compared with what the specification demands.
//	-mode connrate  -n rejected CONNECTs: how many got no CONNACK at all.
//
// The oracle is the specification: every expected value comes from TLC's output.
package main

import (
	"bytes"
	"encoding/json"
	"flag"
	"fmt"
	"hash/fnv"
	"io"
	"net"
	"os"
	"reflect"
	"sort"
	"strings"
	"sync"
	"sync/atomic"
	"time"

	"github.com/DrmagicE/gmqtt"
	"github.com/DrmagicE/gmqtt/persistence/subscription"
	"github.com/DrmagicE/gmqtt/persistence/subscription/mem"
	fed "github.com/DrmagicE/gmqtt/plugin/federation"
	"github.com/DrmagicE/gmqtt/retained/trie"
	"github.com/DrmagicE/gmqtt/server"
	"github.com/hashicorp/serf/serf"

	"verifharness/inproc"
	mw "verifharness/mqttwire"
	"verifharness/tc"
)

var (
	mode      = flag.String("mode", "compose", "compose | verdict | connrate")
	permille  = flag.Int("permille", 1000, "fraction of the emitted cases that is replayed (seeded)")
	fullDepth = flag.Int("fulldepth", 0, "verdict: transitions with a prefix shorter than this are always replayed")
	seed      = flag.Int64("seed", 1, "seed of the sampling")
	par       = flag.Int("par", 16, "brokers in parallel")
	kindsFlag = flag.String("kinds", "", "compose: the hook kinds of the model (checked against server.HookWrapper by reflection)")
	verFlag   = flag.Int("ver", 5, "verdict: protocol version of the subject clients (4 | 5)")
	tolLost   = flag.Bool("tolerate-lost-connack", false, "verdict: a rejected CONNECT without CONNACK is counted, not reported")
	nFlag     = flag.Int("n", 1000, "connrate: number of rejected CONNECTs")
	codesFlag = flag.String("codes", "135", "connrate: reason codes (256 = plain error)")
	ackTO     = 4 * time.Second
	rep       = tc.NewReporter()
)

func main() {
	flag.Parse()
	switch *mode {
	case "compose":
		composeMain()
	case "verdict":
		verdictMain()
	case "connrate":
		connrateMain()
	default:
		fmt.Fprintln(os.Stderr, "unknown mode")
		os.Exit(2)
	}
}

var (
	troubleMu sync.Mutex
	trouble   []string
)

// noteTrouble keeps the first few machinery errors for the summary line.
func noteTrouble(s string) {
	fmt.Fprintln(os.Stderr, s)
	troubleMu.Lock()
	if len(trouble) < 5 {
		if len(s) > 600 {
			s = s[:600]
		}
		trouble = append(trouble, s)
	}
	troubleMu.Unlock()
}

func sampled(js []byte) bool {
	if *permille >= 1000 {
		return true
	}
	h := fnv.New64a()
	fmt.Fprintf(h, "%d|", *seed)
	h.Write(js)
	return int(h.Sum64()%1000) < *permille
}

// ------------------------------------------------------------------------------------------------ scripted connection

type peer struct {
	c    *mw.Client
	ver  byte
	cid  string
	mu   sync.Mutex
	cond *sync.Cond
	seen []*mw.Packet
	eof  bool
	npid uint16
	done chan struct{}
}

func dialPeer(addr string, ver byte, cid string) (*peer, error) {
	c, err := mw.Dial(addr, ver, 3*time.Second)
	if err != nil {
		return nil, err
	}
	p := &peer{c: c, ver: ver, cid: cid, done: make(chan struct{})}
	p.cond = sync.NewCond(&p.mu)
	go p.reader()
	return p, nil
}

func (p *peer) reader() {
	defer close(p.done)
	for {
		pk, err := p.c.Recv(0)
		if pk != nil {
			// acknowledge what the broker sends, so that flows complete and windows stay open
			switch {
			case pk.Type == mw.PUBLISH && pk.QoS == 1:
				p.c.Send(mw.Ack(mw.PUBACK, pk.PacketID, 0))
			case pk.Type == mw.PUBLISH && pk.QoS == 2:
				p.c.Send(mw.Ack(mw.PUBREC, pk.PacketID, 0))
			case pk.Type == mw.PUBREL:
				p.c.Send(mw.Ack(mw.PUBCOMP, pk.PacketID, 0))
			}
			p.mu.Lock()
			p.seen = append(p.seen, pk)
			p.cond.Broadcast()
			p.mu.Unlock()
		}
		if err != nil && pk == nil {
			var de *mw.DecodeError
			if asDecodeError(err, &de) && len(de.Raw) >= 2 {
				// a packet the strict decoder refuses: keep its bytes (type and, for CONNACK, the return code)
				q := &mw.Packet{Type: de.Raw[0] >> 4, Raw: de.Raw}
				if q.Type == mw.CONNACK && len(de.Raw) >= 4 {
					q.Code = de.Raw[3]
				}
				p.mu.Lock()
				p.seen = append(p.seen, q)
				p.cond.Broadcast()
				p.mu.Unlock()
				continue
			}
			p.mu.Lock()
			p.eof = true
			p.cond.Broadcast()
			p.mu.Unlock()
			return
		}
	}
}

func asDecodeError(err error, de **mw.DecodeError) bool {
	if e, ok := err.(*mw.DecodeError); ok {
		*de = e
		return true
	}
	return false
}

func (p *peer) mark() int {
	p.mu.Lock()
	defer p.mu.Unlock()
	return len(p.seen)
}

// wait returns the first packet at position >= from that satisfies pred; ok=false after timeout or when the
// connection ended without such a packet (ended=true).
func (p *peer) wait(from int, timeout time.Duration, pred func(*mw.Packet) bool) (pk *mw.Packet, ok bool, ended bool) {
	deadline := time.Now().Add(timeout)
	timer := time.AfterFunc(timeout, func() { p.mu.Lock(); p.cond.Broadcast(); p.mu.Unlock() })
	defer timer.Stop()
	p.mu.Lock()
	defer p.mu.Unlock()
	i := from
	for {
		for ; i < len(p.seen); i++ {
			if pred(p.seen[i]) {
				return p.seen[i], true, false
			}
		}
		if p.eof {
			return nil, false, true
		}
		if !time.Now().Before(deadline) {
			return nil, false, false
		}
		p.cond.Wait()
	}
}

func (p *peer) since(from int) []*mw.Packet {
	p.mu.Lock()
	defer p.mu.Unlock()
	out := make([]*mw.Packet, len(p.seen)-from)
	copy(out, p.seen[from:])
	return out
}

func (p *peer) pid() uint16 {
	p.npid++
	if p.npid == 0 {
		p.npid = 1
	}
	return p.npid
}

func (p *peer) close() {
	p.c.Close()
	<-p.done
}

func isType(t byte) func(*mw.Packet) bool { return func(p *mw.Packet) bool { return p.Type == t } }

func waitGone(b *inproc.Broker, cid, local string) bool {
	deadline := time.Now().Add(ackTO)
	for time.Now().Before(deadline) {
		cl := b.Srv.ClientService().GetClient(cid)
		if cl == nil || cl.Connection() == nil || cl.Connection().RemoteAddr().String() != local {
			return true
		}
		time.Sleep(500 * time.Microsecond)
	}
	return false
}

// connectOK performs a CONNECT that is expected to succeed.
func connectOK(addr string, ver byte, cid string, clean bool, mod func(*mw.Packet)) (*peer, *mw.Packet, error) {
	p, err := dialPeer(addr, ver, cid)
	if err != nil {
		return nil, nil, err
	}
	pk := mw.Connect(ver, cid, clean, 0)
	if ver == mw.V5 && !clean {
		pk.Props = &mw.Props{SessionExpiry: mw.U32(600)}
	}
	if mod != nil {
		mod(pk)
	}
	if err := p.c.Send(pk); err != nil {
		p.close()
		return nil, nil, err
	}
	ca, ok, _ := p.wait(0, ackTO, isType(mw.CONNACK))
	if !ok || ca.Code != 0 {
		p.close()
		return nil, ca, fmt.Errorf("CONNECT of %s not accepted (%v)", cid, ca)
	}
	return p, ca, nil
}

// ------------------------------------------------------------------------------------------------ (a) composition

type callLog struct {
	mu sync.Mutex
	e  []string
}

func (l *callLog) add(s string) {
	l.mu.Lock()
	l.e = append(l.e, s)
	l.mu.Unlock()
}

func (l *callLog) ofKind(kind string) []string {
	l.mu.Lock()
	defer l.mu.Unlock()
	var out []string
	for _, s := range l.e {
		if strings.HasSuffix(s, "."+kind) {
			out = append(out, s)
		}
	}
	return out
}

// plug is a recording plugin: for every kind in `kinds` it exposes a wrapper that logs "<name>.pre.<kind>", calls the
// next hook and logs "<name>.post.<kind>".
type plug struct {
	name  string
	kinds map[string]bool
	log   *callLog
}

func (p *plug) Load(server.Server) error { return nil }
func (p *plug) Unload() error            { return nil }
func (p *plug) Name() string             { return p.name }
func (p *plug) pre(k string)             { p.log.add(p.name + ".pre." + k) }
func (p *plug) post(k string)            { p.log.add(p.name + ".post." + k) }

func (p *plug) HookWrapper() server.HookWrapper {
	var w server.HookWrapper
	if p.kinds["OnBasicAuth"] {
		w.OnBasicAuthWrapper = func(next server.OnBasicAuth) server.OnBasicAuth {
			return func(ctx ctxT, c server.Client, req *server.ConnectRequest) error {
				p.pre("OnBasicAuth")
				err := next(ctx, c, req)
				p.post("OnBasicAuth")
				return err
			}
		}
	}
	if p.kinds["OnEnhancedAuth"] {
		w.OnEnhancedAuthWrapper = func(next server.OnEnhancedAuth) server.OnEnhancedAuth {
			return func(ctx ctxT, c server.Client, req *server.ConnectRequest) (*server.EnhancedAuthResponse, error) {
				p.pre("OnEnhancedAuth")
				r, err := next(ctx, c, req)
				p.post("OnEnhancedAuth")
				return r, err
			}
		}
	}
	if p.kinds["OnConnected"] {
		w.OnConnectedWrapper = func(next server.OnConnected) server.OnConnected {
			return func(ctx ctxT, c server.Client) {
				p.pre("OnConnected")
				next(ctx, c)
				p.post("OnConnected")
			}
		}
	}
	if p.kinds["OnReAuth"] {
		w.OnReAuthWrapper = func(next server.OnReAuth) server.OnReAuth {
			return func(ctx ctxT, c server.Client, auth *authT) (*server.AuthResponse, error) {
				p.pre("OnReAuth")
				r, err := next(ctx, c, auth)
				p.post("OnReAuth")
				return r, err
			}
		}
	}
	if p.kinds["OnSessionCreated"] {
		w.OnSessionCreatedWrapper = func(next server.OnSessionCreated) server.OnSessionCreated {
			return func(ctx ctxT, c server.Client) {
				p.pre("OnSessionCreated")
				next(ctx, c)
				p.post("OnSessionCreated")
			}
		}
	}
	if p.kinds["OnSessionResumed"] {
		w.OnSessionResumedWrapper = func(next server.OnSessionResumed) server.OnSessionResumed {
			return func(ctx ctxT, c server.Client) {
				p.pre("OnSessionResumed")
				next(ctx, c)
				p.post("OnSessionResumed")
			}
		}
	}
	if p.kinds["OnSessionTerminated"] {
		w.OnSessionTerminatedWrapper = func(next server.OnSessionTerminated) server.OnSessionTerminated {
			return func(ctx ctxT, cid string, reason server.SessionTerminatedReason) {
				p.pre("OnSessionTerminated")
				next(ctx, cid, reason)
				p.post("OnSessionTerminated")
			}
		}
	}
	if p.kinds["OnSubscribe"] {
		w.OnSubscribeWrapper = func(next server.OnSubscribe) server.OnSubscribe {
			return func(ctx ctxT, c server.Client, req *server.SubscribeRequest) error {
				p.pre("OnSubscribe")
				err := next(ctx, c, req)
				p.post("OnSubscribe")
				return err
			}
		}
	}
	if p.kinds["OnSubscribed"] {
		w.OnSubscribedWrapper = func(next server.OnSubscribed) server.OnSubscribed {
			return func(ctx ctxT, c server.Client, s *gmqtt.Subscription) {
				p.pre("OnSubscribed")
				next(ctx, c, s)
				p.post("OnSubscribed")
			}
		}
	}
	if p.kinds["OnUnsubscribe"] {
		w.OnUnsubscribeWrapper = func(next server.OnUnsubscribe) server.OnUnsubscribe {
			return func(ctx ctxT, c server.Client, req *server.UnsubscribeRequest) error {
				p.pre("OnUnsubscribe")
				err := next(ctx, c, req)
				p.post("OnUnsubscribe")
				return err
			}
		}
	}
	if p.kinds["OnUnsubscribed"] {
		w.OnUnsubscribedWrapper = func(next server.OnUnsubscribed) server.OnUnsubscribed {
			return func(ctx ctxT, c server.Client, topic string) {
				p.pre("OnUnsubscribed")
				next(ctx, c, topic)
				p.post("OnUnsubscribed")
			}
		}
	}
	if p.kinds["OnMsgArrived"] {
		w.OnMsgArrivedWrapper = func(next server.OnMsgArrived) server.OnMsgArrived {
			return func(ctx ctxT, c server.Client, req *server.MsgArrivedRequest) error {
				p.pre("OnMsgArrived")
				err := next(ctx, c, req)
				p.post("OnMsgArrived")
				return err
			}
		}
	}
	if p.kinds["OnMsgDropped"] {
		w.OnMsgDroppedWrapper = func(next server.OnMsgDropped) server.OnMsgDropped {
			return func(ctx ctxT, cid string, m *gmqtt.Message, err error) {
				p.pre("OnMsgDropped")
				next(ctx, cid, m, err)
				p.post("OnMsgDropped")
			}
		}
	}
	if p.kinds["OnDelivered"] {
		w.OnDeliveredWrapper = func(next server.OnDelivered) server.OnDelivered {
			return func(ctx ctxT, c server.Client, m *gmqtt.Message) {
				p.pre("OnDelivered")
				next(ctx, c, m)
				p.post("OnDelivered")
			}
		}
	}
	if p.kinds["OnClosed"] {
		w.OnClosedWrapper = func(next server.OnClosed) server.OnClosed {
			return func(ctx ctxT, c server.Client, err error) {
				p.pre("OnClosed")
				next(ctx, c, err)
				p.post("OnClosed")
			}
		}
	}
	if p.kinds["OnAccept"] {
		w.OnAcceptWrapper = func(next server.OnAccept) server.OnAccept {
			return func(ctx ctxT, conn net.Conn) bool {
				p.pre("OnAccept")
				r := next(ctx, conn)
				p.post("OnAccept")
				return r
			}
		}
	}
	if p.kinds["OnStop"] {
		w.OnStopWrapper = func(next server.OnStop) server.OnStop {
			return func(ctx ctxT) {
				p.pre("OnStop")
				next(ctx)
				p.post("OnStop")
			}
		}
	}
	if p.kinds["OnWillPublish"] {
		w.OnWillPublishWrapper = func(next server.OnWillPublish) server.OnWillPublish {
			return func(ctx ctxT, cid string, req *server.WillMsgRequest) {
				p.pre("OnWillPublish")
				next(ctx, cid, req)
				p.post("OnWillPublish")
			}
		}
	}
	if p.kinds["OnWillPublished"] {
		w.OnWillPublishedWrapper = func(next server.OnWillPublished) server.OnWillPublished {
			return func(ctx ctxT, cid string, m *gmqtt.Message) {
				p.pre("OnWillPublished")
				next(ctx, cid, m)
				p.post("OnWillPublished")
			}
		}
	}
	return w
}

// coreHooks is the WithHook core: the hook of `kind` logs "core.call.<kind>" when `core` is set; helper hooks that a
// trigger needs (an OnEnhancedAuth that lets the re-authenticating client in) never log.
func coreHooks(kind string, core bool, l *callLog) server.Hooks {
	var h server.Hooks
	call := func() { l.add("core.call." + kind) }
	if kind == "OnReAuth" {
		h.OnEnhancedAuth = func(ctx ctxT, c server.Client, req *server.ConnectRequest) (*server.EnhancedAuthResponse, error) {
			return &server.EnhancedAuthResponse{Continue: false}, nil
		}
	}
	if !core {
		return h
	}
	switch kind {
	case "OnBasicAuth":
		h.OnBasicAuth = func(ctx ctxT, c server.Client, req *server.ConnectRequest) error { call(); return nil }
	case "OnEnhancedAuth":
		h.OnEnhancedAuth = func(ctx ctxT, c server.Client, req *server.ConnectRequest) (*server.EnhancedAuthResponse, error) {
			call()
			return &server.EnhancedAuthResponse{Continue: false}, nil
		}
	case "OnConnected":
		h.OnConnected = func(ctx ctxT, c server.Client) { call() }
	case "OnReAuth":
		h.OnReAuth = func(ctx ctxT, c server.Client, auth *authT) (*server.AuthResponse, error) {
			call()
			return &server.AuthResponse{Continue: false}, nil
		}
	case "OnSessionCreated":
		h.OnSessionCreated = func(ctx ctxT, c server.Client) { call() }
	case "OnSessionResumed":
		h.OnSessionResumed = func(ctx ctxT, c server.Client) { call() }
	case "OnSessionTerminated":
		h.OnSessionTerminated = func(ctx ctxT, cid string, r server.SessionTerminatedReason) { call() }
	case "OnSubscribe":
		h.OnSubscribe = func(ctx ctxT, c server.Client, req *server.SubscribeRequest) error { call(); return nil }
	case "OnSubscribed":
		h.OnSubscribed = func(ctx ctxT, c server.Client, s *gmqtt.Subscription) { call() }
	case "OnUnsubscribe":
		h.OnUnsubscribe = func(ctx ctxT, c server.Client, req *server.UnsubscribeRequest) error { call(); return nil }
	case "OnUnsubscribed":
		h.OnUnsubscribed = func(ctx ctxT, c server.Client, topic string) { call() }
	case "OnMsgArrived":
		h.OnMsgArrived = func(ctx ctxT, c server.Client, req *server.MsgArrivedRequest) error { call(); return nil }
	case "OnMsgDropped":
		h.OnMsgDropped = func(ctx ctxT, cid string, m *gmqtt.Message, err error) { call() }
	case "OnDelivered":
		h.OnDelivered = func(ctx ctxT, c server.Client, m *gmqtt.Message) { call() }
	case "OnClosed":
		h.OnClosed = func(ctx ctxT, c server.Client, err error) { call() }
	case "OnAccept":
		h.OnAccept = func(ctx ctxT, conn net.Conn) bool { call(); return true }
	case "OnStop":
		h.OnStop = func(ctx ctxT) { call() }
	case "OnWillPublish":
		h.OnWillPublish = func(ctx ctxT, cid string, req *server.WillMsgRequest) { call() }
	case "OnWillPublished":
		h.OnWillPublished = func(ctx ctxT, cid string, m *gmqtt.Message) { call() }
	}
	return h
}

type composeCase struct {
	Case   string   `json:"case"`
	Kind   string   `json:"kind"`
	Order  []string `json:"order"`
	Expose []bool   `json:"expose"`
	Core   bool     `json:"core"`
	Log    []struct {
		P  string `json:"p"`
		Ph string `json:"ph"`
	} `json:"log"`
}

var allKinds []string

func wrapperKinds() []string {
	t := reflect.TypeOf(server.HookWrapper{})
	var ks []string
	for i := 0; i < t.NumField(); i++ {
		ks = append(ks, strings.TrimSuffix(t.Field(i).Name, "Wrapper"))
	}
	sort.Strings(ks)
	return ks
}

func composeMain() {
	// the kinds of the model are exactly the fields of server.HookWrapper, and the recording plugin covers each of them
	real := wrapperKinds()
	model := strings.Split(*kindsFlag, ",")
	sort.Strings(model)
	fatal := ""
	if !reflect.DeepEqual(real, model) {
		fatal = fmt.Sprintf("hook kinds of the model %v differ from the fields of server.HookWrapper %v", model, real)
	}
	allKinds = real
	all := map[string]bool{}
	for _, k := range real {
		all[k] = true
	}
	hw := reflect.ValueOf((&plug{name: "x", kinds: all, log: &callLog{}}).HookWrapper())
	for i := 0; i < hw.NumField(); i++ {
		if hw.Field(i).IsNil() {
			fatal = "recording plugin has no wrapper for " + hw.Type().Field(i).Name
		}
	}
	var emitted int64
	perKind := map[string]int64{}
	var pkmu sync.Mutex
	err := tc.Each(os.Stdin, *par, false, nil, func(js []byte) {
		if fatal != "" {
			return
		}
		atomic.AddInt64(&emitted, 1)
		if !sampled(js) {
			return
		}
		var cs composeCase
		if err := json.Unmarshal(js, &cs); err != nil || cs.Case != "compose" {
			rep.Count("bad_lines", 1)
			return
		}
		var want []string
		for _, e := range cs.Log {
			want = append(want, e.P+"."+e.Ph+"."+cs.Kind)
		}
		got, err := runCompose(&cs, len(want))
		if ip, ok := err.(*inproc.InitPanic); ok {
			// the broker cannot even start with these plugins: no wrapper is installed, nothing fires
			atomic.AddInt64(&rep.N, 1)
			rep.Div("compose:"+cs.Kind+":init-panic", fmt.Sprintf("broker with plugins %v (exposing the %s wrapper: %v), core hook %v panics in Init: %s",
				cs.Order, cs.Kind, cs.Expose, cs.Core, ip.Value), js, map[string]interface{}{"want": want})
			return
		}
		for try := 0; err != nil && try < 2; try++ {
			rep.Count("retried", 1)
			got, err = runCompose(&cs, len(want))
		}
		if err != nil {
			rep.Count("machinery:"+cs.Kind, 1)
			rep.Count("machinery", 1)
			noteTrouble(fmt.Sprintf("compose %s: %v", js, err))
			return
		}
		atomic.AddInt64(&rep.N, 1)
		if len(want) > 1 {
			atomic.AddInt64(&rep.NonTriv, 1)
		}
		pkmu.Lock()
		perKind[cs.Kind]++
		pkmu.Unlock()
		rep.Sample(js, 2)
		if !reflect.DeepEqual(got, want) {
			// once more: a divergence of the call log must be reproducible (the trigger is deterministic)
			got2, err2 := runCompose(&cs, len(want))
			confirmed := err2 == nil && reflect.DeepEqual(got, got2)
			sig := "compose:" + cs.Kind + ":" + classify(got, want)
			rep.Div(sig, fmt.Sprintf("one %s event with plugins %v (exposing the wrapper: %v), core hook %v: call log %v, demanded %v",
				cs.Kind, cs.Order, cs.Expose, cs.Core, got, want), js, map[string]interface{}{"got": got, "want": want, "confirmed": confirmed, "second_run": got2})
		}
	})
	extra := map[string]interface{}{"emitted": emitted, "per_kind": perKind, "trouble": trouble}
	if err != nil {
		fatal = err.Error()
	}
	if fatal != "" {
		extra["fatal"] = fatal
	}
	rep.Summary(extra)
}

func classify(got, want []string) string {
	cnt := func(xs []string) map[string]int {
		m := map[string]int{}
		for _, x := range xs {
			m[x]++
		}
		return m
	}
	g, w := cnt(got), cnt(want)
	if reflect.DeepEqual(g, w) {
		return "wrong-order"
	}
	dup, extra, missing, missingPlug, wantPlug, gotPlug := false, false, false, 0, 0, 0
	for k, n := range g {
		if w[k] == 0 {
			extra = true
		} else if n > w[k] {
			dup = true
		}
		if !strings.HasPrefix(k, "core.") {
			gotPlug++
		}
	}
	for k, n := range w {
		if g[k] < n {
			missing = true
			if !strings.HasPrefix(k, "core.") {
				missingPlug++
			}
		}
		if !strings.HasPrefix(k, "core.") {
			wantPlug++
		}
	}
	switch {
	case dup:
		return "fired-more-than-once"
	case extra:
		return "unexpected-call"
	case missing && wantPlug > 0 && missingPlug == wantPlug && gotPlug == 0:
		return "wrappers-not-applied"
	case missing:
		return "call-missing"
	}
	return "differs"
}

func runCompose(cs *composeCase, nwant int) (got []string, err error) {
	l := &callLog{}
	var plugins []server.Plugin
	for i, name := range cs.Order {
		kinds := map[string]bool{}
		if cs.Expose[i] {
			kinds[cs.Kind] = true
		} else {
			// a plugin that does not expose the kind under test exposes some other kind (its calls are not part of the log compared)
			h := fnv.New32a()
			fmt.Fprintf(h, "%d|%s|%s|%v", *seed, cs.Kind, name, cs.Order)
			other := allKinds[int(h.Sum32())%len(allKinds)]
			if other != cs.Kind {
				kinds[other] = true
			}
		}
		plugins = append(plugins, &plug{name: name, kinds: kinds, log: l})
	}
	cfg := inproc.DefaultConfig()
	if cs.Kind == "OnMsgDropped" {
		cfg.MQTT.MaxQueuedMsg = 1
		cfg.MQTT.MaxInflight = 1
	}
	b, e := inproc.Start(inproc.Options{Cfg: cfg, Server: []server.Options{server.WithPlugin(plugins...), server.WithHook(coreHooks(cs.Kind, cs.Core, l))}})
	if e != nil {
		return nil, e
	}
	stopped := false
	var peers []*peer
	defer func() {
		for _, p := range peers {
			p.close()
		}
		if !stopped {
			if e := b.Stop(5 * time.Second); e != nil && err == nil {
				err = fmt.Errorf("stop: %v", e)
			}
		}
	}()
	conn := func(ver byte, cid string, clean bool, mod func(*mw.Packet)) (*peer, error) {
		p, _, e := connectOK(b.Addr, ver, cid, clean, mod)
		if e == nil {
			peers = append(peers, p)
		}
		return p, e
	}
	switch cs.Kind {
	case "OnAccept":
		c, e := net.DialTimeout("tcp", b.Addr, 3*time.Second)
		if e != nil {
			return nil, e
		}
		defer c.Close()
	case "OnBasicAuth", "OnConnected", "OnSessionCreated":
		ver := byte(mw.V311)
		if len(cs.Order)%2 == 1 {
			ver = mw.V5
		}
		if _, e := conn(ver, "k1", true, nil); e != nil {
			return nil, e
		}
	case "OnEnhancedAuth":
		p, e := dialPeer(b.Addr, mw.V5, "k1")
		if e != nil {
			return nil, e
		}
		peers = append(peers, p)
		pk := mw.Connect(mw.V5, "k1", true, 0)
		pk.Props = &mw.Props{AuthMethod: mw.Str("M")}
		p.c.Send(pk)
		// without any OnEnhancedAuth hook the broker refuses the CONNECT (failing CONNACK / end of connection): no hook to call
		if _, ok, ended := p.wait(0, ackTO, isType(mw.CONNACK)); !ok && !ended {
			return nil, fmt.Errorf("no answer to CONNECT with authentication method")
		}
	case "OnReAuth":
		p, e := conn(mw.V5, "k1", true, func(pk *mw.Packet) { pk.Props = &mw.Props{AuthMethod: mw.Str("M")} })
		if e != nil {
			return nil, e
		}
		m := p.mark()
		// client.go readHandle compares the session's method with Authentication *Data*: both carry "M"
		p.c.Send(&mw.Packet{Type: mw.AUTH, Code: 0x19, Props: &mw.Props{AuthMethod: mw.Str("M"), AuthData: []byte("M"), HasAuthData: true}})
		if _, ok, ended := p.wait(m, ackTO, func(q *mw.Packet) bool { return q.Type == mw.AUTH || q.Type == mw.DISCONNECT }); !ok && !ended {
			return nil, fmt.Errorf("no answer to AUTH")
		}
	case "OnSessionResumed":
		p, e := conn(mw.V311, "k1", false, nil)
		if e != nil {
			return nil, e
		}
		local := p.c.LocalAddr()
		p.c.Send(mw.Disconnect(0))
		p.c.Close()
		if !waitGone(b, "k1", local) {
			return nil, fmt.Errorf("first connection still registered")
		}
		p2, ca, e := connectOK(b.Addr, mw.V311, "k1", false, nil)
		if e != nil {
			return nil, e
		}
		peers = append(peers, p2)
		if !ca.SessionPresent {
			return nil, fmt.Errorf("session was not resumed")
		}
	case "OnSessionTerminated", "OnClosed":
		p, e := conn(mw.V311, "k1", true, nil)
		if e != nil {
			return nil, e
		}
		local := p.c.LocalAddr()
		if cs.Kind == "OnSessionTerminated" {
			p.c.Send(mw.Disconnect(0))
		}
		p.c.Close()
		if !waitGone(b, "k1", local) {
			return nil, fmt.Errorf("connection still registered")
		}
	case "OnSubscribe", "OnSubscribed", "OnUnsubscribe", "OnUnsubscribed":
		p, e := conn(mw.V311, "k1", true, nil)
		if e != nil {
			return nil, e
		}
		p.c.Send(mw.Subscribe(p.pid(), mw.SubTopic{Filter: "s/1", QoS: 1}))
		if _, ok, _ := p.wait(0, ackTO, isType(mw.SUBACK)); !ok {
			return nil, fmt.Errorf("no SUBACK")
		}
		if strings.HasPrefix(cs.Kind, "OnUnsub") {
			p.c.Send(mw.Unsubscribe(p.pid(), "s/1"))
			if _, ok, _ := p.wait(0, ackTO, isType(mw.UNSUBACK)); !ok {
				return nil, fmt.Errorf("no UNSUBACK")
			}
		}
	case "OnMsgArrived":
		p, e := conn(mw.V311, "k1", true, nil)
		if e != nil {
			return nil, e
		}
		p.c.Send(mw.Publish("m/1", 1, false, p.pid(), []byte("x")))
		if _, ok, _ := p.wait(0, ackTO, isType(mw.PUBACK)); !ok {
			return nil, fmt.Errorf("no PUBACK")
		}
	case "OnDelivered":
		s, e := conn(mw.V311, "k2", true, nil)
		if e != nil {
			return nil, e
		}
		s.c.Send(mw.Subscribe(s.pid(), mw.SubTopic{Filter: "d/1", QoS: 0}))
		if _, ok, _ := s.wait(0, ackTO, isType(mw.SUBACK)); !ok {
			return nil, fmt.Errorf("no SUBACK")
		}
		p, e := conn(mw.V311, "k1", true, nil)
		if e != nil {
			return nil, e
		}
		p.c.Send(mw.Publish("d/1", 1, false, p.pid(), []byte("x")))
		if _, ok, _ := p.wait(0, ackTO, isType(mw.PUBACK)); !ok {
			return nil, fmt.Errorf("no PUBACK")
		}
		if _, ok, _ := s.wait(0, ackTO, isType(mw.PUBLISH)); !ok {
			return nil, fmt.Errorf("message not delivered")
		}
	case "OnMsgDropped":
		// a stored session with a 1-slot queue: the second QoS1 message overflows it
		s, e := conn(mw.V311, "k2", false, nil)
		if e != nil {
			return nil, e
		}
		s.c.Send(mw.Subscribe(s.pid(), mw.SubTopic{Filter: "d/1", QoS: 1}))
		if _, ok, _ := s.wait(0, ackTO, isType(mw.SUBACK)); !ok {
			return nil, fmt.Errorf("no SUBACK")
		}
		local := s.c.LocalAddr()
		s.c.Send(mw.Disconnect(0))
		s.c.Close()
		if !waitGone(b, "k2", local) {
			return nil, fmt.Errorf("subscriber still registered")
		}
		p, e := conn(mw.V311, "k1", true, nil)
		if e != nil {
			return nil, e
		}
		for i := 0; i < 2; i++ {
			m := p.mark()
			p.c.Send(mw.Publish("d/1", 1, false, p.pid(), []byte{byte('a' + i)}))
			if _, ok, _ := p.wait(m, ackTO, isType(mw.PUBACK)); !ok {
				return nil, fmt.Errorf("no PUBACK")
			}
		}
	case "OnWillPublish", "OnWillPublished":
		p, e := conn(mw.V311, "k1", true, func(pk *mw.Packet) { pk.WithWill("w/1", []byte("w"), 1, false, nil) })
		if e != nil {
			return nil, e
		}
		local := p.c.LocalAddr()
		p.c.Close()
		if !waitGone(b, "k1", local) {
			return nil, fmt.Errorf("connection still registered")
		}
	case "OnStop":
		stopped = true
		if e := b.Stop(5 * time.Second); e != nil {
			return nil, fmt.Errorf("stop: %v", e)
		}
	default:
		return nil, fmt.Errorf("no trigger for kind %s", cs.Kind)
	}
	// hooks that run on the broker's own goroutines (accept loop, connection end): wait until the demanded number of
	// calls is there, then a little longer for calls that should not be there
	patience := 250 * time.Millisecond
	if cs.Kind == "OnAccept" {
		patience = 3 * time.Second // the only trigger without any answer on the wire or in the services
	}
	deadline := time.Now().Add(patience)
	for len(l.ofKind(cs.Kind)) < nwant && time.Now().Before(deadline) {
		time.Sleep(200 * time.Microsecond)
	}
	time.Sleep(10 * time.Millisecond)
	return l.ofKind(cs.Kind), nil
}

// ------------------------------------------------------------------------------------------------ (b) verdicts

type Msg struct {
	Has *bool  `json:"has,omitempty"`
	T   string `json:"t"`
	P   string `json:"p"`
	Q   int    `json:"q"`
	R   bool   `json:"r"`
}

type TopicVerdict struct {
	K    string `json:"k"`
	Code int    `json:"code"`
	Q    int    `json:"q"`
	F    string `json:"f"`
}

type Verdict struct {
	K    string         `json:"k"`
	Code int            `json:"code"`
	How  string         `json:"how"`
	M    *Msg           `json:"m"`
	Tv   []TopicVerdict `json:"tv"`
}

func (v *Verdict) tag() string {
	if v == nil {
		return "none"
	}
	if v.How != "" {
		return v.K + "-" + v.How
	}
	return v.K
}

type Resp struct {
	T     string `json:"t"`
	Ok    bool   `json:"ok"`
	Sp    bool   `json:"sp"`
	Code  int    `json:"code"`
	Codes []int  `json:"codes"`
}

type Dlv struct {
	To string `json:"to"`
	T  string `json:"t"`
	P  string `json:"p"`
	Q  int    `json:"q"`
}

type Item struct {
	F string `json:"f"`
	Q int    `json:"q"`
}

type Op struct {
	Op    string   `json:"op"`
	C     string   `json:"c"`
	Clean bool     `json:"clean"`
	Will  *Msg     `json:"will"`
	Auth  string   `json:"auth"`
	V     *Verdict `json:"v"`
	Items []Item   `json:"items"`
	Fs    []string `json:"fs"`
	M     *Msg     `json:"m"`
	Resp  Resp     `json:"resp"`
	Dlv   []Dlv    `json:"dlv"`
}

type SubE struct {
	C string `json:"c"`
	F string `json:"f"`
	Q int    `json:"q"`
}
type RetE struct {
	T string `json:"t"`
	P string `json:"p"`
	Q int    `json:"q"`
}
type State struct {
	Sess map[string]string `json:"sess"`
	Will map[string]Msg    `json:"will"`
	Subs []SubE            `json:"subs"`
	Ret  []RetE            `json:"ret"`
}

type Trans struct {
	Case string `json:"case"`
	Pre  []Op   `json:"pre"`
	Op   Op     `json:"op"`
	St0  State  `json:"st0"`
	St   State  `json:"st"`
}

// script is what the core hooks of one broker consult: the verdict for the next request of a subject client.
type script struct {
	mu       sync.Mutex
	subjects map[string]bool
	conn     *Verdict
	auth     string
	sub      *Verdict
	subItems []Item
	unsub    *Verdict
	unsubFs  []string
	pub      *Verdict
	will     *Verdict
}

func hookErr(code int) error {
	if code == 256 {
		return fmt.Errorf("refused by hook")
	}
	return &codesError{Code: byte(code)}
}

func (s *script) hooks() server.Hooks {
	get := func(f func()) { s.mu.Lock(); f(); s.mu.Unlock() }
	connVerdict := func(cid string) error {
		var v *Verdict
		get(func() {
			if s.subjects[cid] {
				v = s.conn
			}
		})
		if v != nil && v.K == "reject" {
			return hookErr(v.Code)
		}
		return nil
	}
	return server.Hooks{
		OnBasicAuth: func(ctx ctxT, c server.Client, req *server.ConnectRequest) error {
			return connVerdict(string(req.Connect.ClientID))
		},
		OnEnhancedAuth: func(ctx ctxT, c server.Client, req *server.ConnectRequest) (*server.EnhancedAuthResponse, error) {
			cid := string(req.Connect.ClientID)
			var am string
			get(func() { am = s.auth })
			if am == "enhanced2" {
				// the verdict is given when the client has answered the challenge
				return &server.EnhancedAuthResponse{Continue: true, AuthData: []byte("challenge"),
					OnAuth: func(ctx ctxT, c server.Client, req *server.AuthRequest) (*server.AuthResponse, error) {
						if err := connVerdict(cid); err != nil {
							return nil, err
						}
						return &server.AuthResponse{Continue: false}, nil
					}}, nil
			}
			if err := connVerdict(cid); err != nil {
				return nil, err
			}
			return &server.EnhancedAuthResponse{Continue: false}, nil
		},
		OnSubscribe: func(ctx ctxT, c server.Client, req *server.SubscribeRequest) error {
			var v *Verdict
			var items []Item
			get(func() {
				if s.subjects[c.ClientOptions().ClientID] {
					v, items = s.sub, s.subItems
				}
			})
			if v == nil {
				return nil
			}
			switch v.K {
			case "reject":
				return hookErr(v.Code)
			case "topic":
				for i, tv := range v.Tv {
					switch tv.K {
					case "err":
						req.Reject(items[i].F, hookErr(tv.Code))
					case "grant":
						req.GrantQoS(items[i].F, byte(tv.Q))
					}
				}
			}
			return nil
		},
		OnUnsubscribe: func(ctx ctxT, c server.Client, req *server.UnsubscribeRequest) error {
			var v *Verdict
			var fs []string
			get(func() {
				if s.subjects[c.ClientOptions().ClientID] {
					v, fs = s.unsub, s.unsubFs
				}
			})
			if v == nil {
				return nil
			}
			switch v.K {
			case "reject":
				return hookErr(v.Code)
			case "topic":
				for i, tv := range v.Tv {
					switch tv.K {
					case "err":
						req.Reject(fs[i], hookErr(tv.Code))
					case "retarget":
						if u := req.Unsubs[fs[i]]; u != nil {
							u.TopicName = tv.F
						}
					}
				}
			}
			return nil
		},
		OnMsgArrived: func(ctx ctxT, c server.Client, req *server.MsgArrivedRequest) error {
			var v *Verdict
			get(func() {
				if s.subjects[c.ClientOptions().ClientID] {
					v = s.pub
				}
			})
			if v == nil {
				return nil
			}
			switch v.K {
			case "reject":
				return hookErr(v.Code)
			case "drop":
				req.Drop()
			case "rewrite":
				switch v.How {
				case "inplace":
					req.Message.Topic, req.Message.Payload, req.Message.QoS, req.Message.Retained = v.M.T, []byte(v.M.P), byte(v.M.Q), v.M.R
				case "replace":
					req.Message = &gmqtt.Message{Topic: v.M.T, Payload: []byte(v.M.P), QoS: byte(v.M.Q), Retained: v.M.R}
				case "full":
					req.Message = &gmqtt.Message{Topic: v.M.T, Payload: []byte(v.M.P), QoS: byte(v.M.Q), Retained: v.M.R}
					req.IterationOptions.TopicName = v.M.T
				}
			}
			return nil
		},
		OnWillPublish: func(ctx ctxT, cid string, req *server.WillMsgRequest) {
			var v *Verdict
			get(func() {
				if s.subjects[cid] {
					v = s.will
				}
			})
			if v == nil {
				return
			}
			switch v.K {
			case "drop":
				req.Drop()
			case "edit":
				if v.How == "inplace" {
					req.Message.Topic, req.Message.Payload, req.Message.QoS = v.M.T, []byte(v.M.P), byte(v.M.Q)
				} else {
					req.Message = &gmqtt.Message{Topic: v.M.T, Payload: []byte(v.M.P), QoS: byte(v.M.Q)}
				}
			}
		},
	}
}

type fedSerf struct{}

func (fedSerf) Join([]string, bool) (int, error) { return 0, nil }
func (fedSerf) RemoveFailedNode(string) error    { return nil }
func (fedSerf) Leave() error                     { return nil }
func (fedSerf) Members() []serf.Member           { return nil }
func (fedSerf) Shutdown() error                  { return nil }

type fedNop struct{}

func (fedNop) Publish(*gmqtt.Message) {}

// fedPlug hands the hook wrappers of a real Federation object to the broker (no serf, no gRPC listener).
type fedPlug struct{ f *fed.Federation }

func (p *fedPlug) Load(server.Server) error        { return nil }
func (p *fedPlug) Unload() error                   { return nil }
func (p *fedPlug) Name() string                    { return "fedprobe" }
func (p *fedPlug) HookWrapper() server.HookWrapper { return p.f.HookWrapper() }

// world is one broker with the observer and the current connections of the subjects.
type world struct {
	b     *inproc.Broker
	sc    *script
	obs   *peer
	obs2  *peer           // second observer with the narrow filter "+/2" (Hooks.tla Obs2Filter)
	fed   *fed.Federation // the real federation plugin, outermost wrapper, with one peer "n2" that announced "#" (Hooks.tla: "fed")
	fedN  int             // events of the peer's queue already seen
	ver   byte
	subj  map[string]*peer
	sentN int
}

func newWorld(ver byte, subjects []string) (*world, error) {
	sc := &script{subjects: map[string]bool{}}
	for _, s := range subjects {
		sc.subjects[s] = true
	}
	// the real federation plugin wraps the scripted hooks (it is the outer wrapper): what an inner hook rejects, drops or
	// rewrites is what the peers of the federation get (or do not get)
	f := fed.VerifNew(fed.VerifOptions{NodeName: "n1", Serf: fedSerf{}, LocalSubs: mem.NewStore(), Retained: trie.NewStore(), Publisher: fedNop{}})
	f.VerifNodeJoin("n2", "n1")
	f.VerifFedSubStore().Subscribe("n2", &gmqtt.Subscription{TopicFilter: "#"})
	b, err := inproc.Start(inproc.Options{Cfg: inproc.DefaultConfig(), Server: []server.Options{server.WithPlugin(&fedPlug{f}), server.WithHook(sc.hooks())}})
	if err != nil {
		return nil, err
	}
	w := &world{b: b, sc: sc, ver: ver, subj: map[string]*peer{}, fed: f}
	obs, _, err := connectOK(b.Addr, mw.V5, "obs", true, nil)
	if err != nil {
		b.Stop(5 * time.Second)
		return nil, err
	}
	w.obs = obs
	obs.c.Send(mw.Subscribe(obs.pid(), mw.SubTopic{Filter: "#", QoS: 2}, mw.SubTopic{Filter: "$vs/obs", QoS: 0}))
	if _, ok, _ := obs.wait(0, ackTO, isType(mw.SUBACK)); !ok {
		w.close()
		return nil, fmt.Errorf("observer got no SUBACK")
	}
	obs2, _, err := connectOK(b.Addr, mw.V5, "obs2", true, nil)
	if err != nil {
		w.close()
		return nil, err
	}
	w.obs2 = obs2
	obs2.c.Send(mw.Subscribe(obs2.pid(), mw.SubTopic{Filter: "+/2", QoS: 2}, mw.SubTopic{Filter: "$vs/obs2", QoS: 0}))
	if _, ok, _ := obs2.wait(0, ackTO, isType(mw.SUBACK)); !ok {
		w.close()
		return nil, fmt.Errorf("second observer got no SUBACK")
	}
	return w, nil
}

func (w *world) close() {
	for _, p := range w.subj {
		p.close()
	}
	if w.obs != nil {
		w.obs.close()
	}
	if w.obs2 != nil {
		w.obs2.close()
	}
	w.b.Stop(5 * time.Second)
}

// barrier: a sentinel through the Publisher API (no hook runs for it) per online connection; session queues are FIFO,
// so what was enqueued before has arrived when the sentinel has.
func (w *world) barrier() error {
	w.sentN++
	ps := []*peer{w.obs, w.obs2}
	for _, p := range w.subj {
		ps = append(ps, p)
	}
	for _, p := range ps {
		tag := fmt.Sprintf("S%d", w.sentN)
		m := 0
		w.b.Srv.Publisher().Publish(&gmqtt.Message{Topic: "$vs/" + p.cid, Payload: []byte(tag), QoS: 0})
		if _, ok, _ := p.wait(m, ackTO, func(q *mw.Packet) bool {
			return q.Type == mw.PUBLISH && q.Topic == "$vs/"+p.cid && string(q.Payload) == tag
		}); !ok {
			return fmt.Errorf("sentinel not received by %s", p.cid)
		}
	}
	return nil
}

type obsv struct {
	resp   Resp
	noResp string // why no response packet was seen ("" if one was)
	dlv    []Dlv
}

func (w *world) marks() map[string]int {
	m := map[string]int{"obs": w.obs.mark(), "obs2": w.obs2.mark()}
	for c, p := range w.subj {
		m[c] = p.mark()
	}
	return m
}

func (w *world) deliveries(marks map[string]int) []Dlv {
	var out []Dlv
	collect := func(name string, p *peer) {
		from, ok := marks[name]
		if !ok {
			from = 0
		}
		for _, q := range p.since(from) {
			if q.Type == mw.PUBLISH && !strings.HasPrefix(q.Topic, "$vs/") {
				out = append(out, Dlv{To: name, T: q.Topic, P: string(q.Payload), Q: int(q.QoS)})
			}
		}
	}
	collect("obs", w.obs)
	collect("obs2", w.obs2)
	// what the federation plugin queued for its peer n2 since the last look (message events only)
	if w.fed != nil {
		evs := w.fed.VerifPeer("n2").Queue().Events
		for _, e := range evs[w.fedN:] {
			if m := e.GetMessage(); m != nil {
				out = append(out, Dlv{To: "fed", T: m.TopicName, P: string(m.Payload), Q: int(m.Qos)})
			}
		}
		w.fedN = len(evs)
	}
	for c, p := range w.subj {
		collect(c, p)
	}
	return out
}

// apply performs one request; machinery trouble is returned as error.
func (w *world) apply(op *Op) (o obsv, err error) {
	sc := w.sc
	marks := w.marks()
	o.resp = Resp{T: "none"}
	switch op.Op {
	case "connect":
		sc.mu.Lock()
		sc.conn, sc.auth = op.V, op.Auth
		sc.mu.Unlock()
		p, e := dialPeer(w.b.Addr, w.ver, op.C)
		if e != nil {
			return o, e
		}
		pk := mw.Connect(w.ver, op.C, op.Clean, 0)
		if w.ver == mw.V5 {
			pk.Props = &mw.Props{}
			if !op.Clean {
				pk.Props.SessionExpiry = mw.U32(600)
			}
			if op.Auth != "basic" {
				pk.Props.AuthMethod = mw.Str("M")
			}
		}
		if op.Will != nil && op.Will.Has != nil && *op.Will.Has {
			pk.WithWill(op.Will.T, []byte(op.Will.P), byte(op.Will.Q), false, nil)
		}
		p.c.Send(pk)
		if op.Auth == "enhanced2" {
			if _, ok, _ := p.wait(0, ackTO, isType(mw.AUTH)); ok {
				p.c.Send(&mw.Packet{Type: mw.AUTH, Code: 0x18, Props: &mw.Props{AuthMethod: mw.Str("M"), AuthData: []byte("answer"), HasAuthData: true}})
			}
		}
		ca, ok, ended := p.wait(0, ackTO, isType(mw.CONNACK))
		switch {
		case ok:
			o.resp = Resp{T: "connack", Ok: ca.Code == 0, Sp: ca.SessionPresent, Code: int(ca.Code)}
		case ended:
			o.noResp = "connection closed without CONNACK"
		default:
			o.noResp = fmt.Sprintf("neither CONNACK nor end of connection within %v", ackTO)
		}
		if ok && ca.Code == 0 {
			if old := w.subj[op.C]; old != nil {
				old.close()
			}
			w.subj[op.C] = p
			// sentinel subscription through the API (no hook runs, not part of the compared subscriptions)
			w.b.Srv.SubscriptionService().Subscribe(op.C, &gmqtt.Subscription{TopicFilter: "$vs/" + op.C, QoS: 0})
		} else {
			p.close()
		}
	case "disconnect", "abort":
		p := w.subj[op.C]
		if p == nil {
			return o, fmt.Errorf("%s of %s: not connected", op.Op, op.C)
		}
		if op.Op == "abort" {
			sc.mu.Lock()
			sc.will = op.V
			sc.mu.Unlock()
		} else {
			p.c.Send(mw.Disconnect(0))
		}
		local := p.c.LocalAddr()
		p.close()
		delete(w.subj, op.C)
		delete(marks, op.C)
		if !waitGone(w.b, op.C, local) {
			return o, fmt.Errorf("connection of %s still registered after close", op.C)
		}
	case "subscribe":
		p := w.subj[op.C]
		if p == nil {
			return o, fmt.Errorf("subscribe of %s: not connected", op.C)
		}
		sc.mu.Lock()
		sc.sub, sc.subItems = op.V, op.Items
		sc.mu.Unlock()
		var ts []mw.SubTopic
		for _, it := range op.Items {
			ts = append(ts, mw.SubTopic{Filter: it.F, QoS: byte(it.Q)})
		}
		pid := p.pid()
		m := p.mark()
		p.c.Send(mw.Subscribe(pid, ts...))
		sa, ok, _ := p.wait(m, ackTO, func(q *mw.Packet) bool { return q.Type == mw.SUBACK && q.PacketID == pid })
		if ok {
			o.resp = Resp{T: "suback"}
			for _, c := range sa.Codes {
				o.resp.Codes = append(o.resp.Codes, int(c))
			}
		} else {
			o.noResp = "no SUBACK"
		}
	case "unsubscribe":
		p := w.subj[op.C]
		if p == nil {
			return o, fmt.Errorf("unsubscribe of %s: not connected", op.C)
		}
		sc.mu.Lock()
		sc.unsub, sc.unsubFs = op.V, op.Fs
		sc.mu.Unlock()
		pid := p.pid()
		m := p.mark()
		p.c.Send(mw.Unsubscribe(pid, op.Fs...))
		ua, ok, _ := p.wait(m, ackTO, func(q *mw.Packet) bool { return q.Type == mw.UNSUBACK && q.PacketID == pid })
		if ok {
			o.resp = Resp{T: "unsuback"}
			for _, c := range ua.Codes {
				o.resp.Codes = append(o.resp.Codes, int(c))
			}
		} else {
			o.noResp = "no UNSUBACK"
		}
	case "publish":
		p := w.subj[op.C]
		if p == nil {
			return o, fmt.Errorf("publish of %s: not connected", op.C)
		}
		sc.mu.Lock()
		sc.pub = op.V
		sc.mu.Unlock()
		pid := uint16(0)
		if op.M.Q > 0 {
			pid = p.pid()
		}
		m := p.mark()
		p.c.Send(mw.Publish(op.M.T, byte(op.M.Q), op.M.R, pid, []byte(op.M.P)))
		switch op.M.Q {
		case 0:
			// one connection's packets are handled in order: PINGRESP means the PUBLISH has been handled
			p.c.Send(mw.Pingreq())
			if _, ok, _ := p.wait(m, ackTO, isType(mw.PINGRESP)); !ok {
				return o, fmt.Errorf("no PINGRESP after QoS0 PUBLISH")
			}
			o.resp = Resp{T: "none"}
		case 1:
			a, ok, _ := p.wait(m, ackTO, func(q *mw.Packet) bool { return q.Type == mw.PUBACK && q.PacketID == pid })
			if ok {
				o.resp = Resp{T: "puback", Ok: a.Code < 0x80, Code: int(a.Code)}
			} else {
				o.noResp = "no PUBACK"
			}
		case 2:
			a, ok, _ := p.wait(m, ackTO, func(q *mw.Packet) bool { return q.Type == mw.PUBREC && q.PacketID == pid })
			if ok {
				o.resp = Resp{T: "pubrec", Ok: a.Code < 0x80, Code: int(a.Code)}
				if a.Code < 0x80 {
					p.c.Send(mw.Ack(mw.PUBREL, pid, 0))
					if _, ok, _ := p.wait(m, ackTO, func(q *mw.Packet) bool { return q.Type == mw.PUBCOMP && q.PacketID == pid }); !ok {
						return o, fmt.Errorf("no PUBCOMP")
					}
				}
			} else {
				o.noResp = "no PUBREC"
			}
		}
	default:
		return o, fmt.Errorf("unknown op %q", op.Op)
	}
	if e := w.barrier(); e != nil {
		return o, e
	}
	o.dlv = w.deliveries(marks)
	return o, nil
}

// project reads the broker-visible state through the public services.
func (w *world) project(subjects []string) State {
	st := State{Sess: map[string]string{}, Will: map[string]Msg{}}
	f := false
	have := map[string]bool{}
	w.b.Srv.ClientService().IterateSession(func(s *gmqtt.Session) bool { have[s.ClientID] = true; return true })
	for _, c := range subjects {
		online := w.b.Srv.ClientService().GetClient(c) != nil
		switch {
		case online && have[c]:
			st.Sess[c] = "online"
		case online:
			st.Sess[c] = "online-without-session"
		case have[c]:
			st.Sess[c] = "offline"
		default:
			st.Sess[c] = "none"
		}
		st.Will[c] = Msg{Has: &f}
		if online {
			if s, _ := w.b.Srv.ClientService().GetSession(c); s != nil && s.Will != nil {
				t := true
				st.Will[c] = Msg{Has: &t, T: s.Will.Topic, P: string(s.Will.Payload), Q: int(s.Will.QoS)}
			}
		}
	}
	w.b.Srv.SubscriptionService().Iterate(func(cid string, s *gmqtt.Subscription) bool {
		if cid != "obs" && cid != "obs2" && !strings.HasPrefix(s.TopicFilter, "$vs/") {
			st.Subs = append(st.Subs, SubE{C: cid, F: s.GetFullTopicName(), Q: int(s.QoS)})
		}
		return true
	}, subscription.IterationOptions{Type: subscription.TypeAll})
	w.b.Srv.RetainedService().Iterate(func(m *gmqtt.Message) bool {
		st.Ret = append(st.Ret, RetE{T: m.Topic, P: string(m.Payload), Q: int(m.QoS)})
		return true
	})
	return st
}

func canonState(s State) (sess, will, subs, ret string) {
	var a, b, c, d []string
	for k, v := range s.Sess {
		a = append(a, k+"="+v)
	}
	for k, v := range s.Will {
		if v.Has != nil && *v.Has {
			b = append(b, fmt.Sprintf("%s=%s|%s|q%d", k, v.T, v.P, v.Q))
		} else {
			b = append(b, k+"=none")
		}
	}
	for _, x := range s.Subs {
		c = append(c, fmt.Sprintf("%s|%s|q%d", x.C, x.F, x.Q))
	}
	for _, x := range s.Ret {
		d = append(d, fmt.Sprintf("%s|%s|q%d", x.T, x.P, x.Q))
	}
	for _, l := range [][]string{a, b, c, d} {
		sort.Strings(l)
	}
	return strings.Join(a, ","), strings.Join(b, ","), strings.Join(c, ","), strings.Join(d, ",")
}

func canonDlv(ds []Dlv) string {
	var a []string
	for _, d := range ds {
		a = append(a, fmt.Sprintf("%s<-%s|%s|q%d", d.To, d.T, d.P, d.Q))
	}
	sort.Strings(a)
	return strings.Join(a, ",")
}

// respDiff compares the observed response with the demanded one under the rules of the protocol version.
func respDiff(ver byte, op *Op, o obsv) string {
	want := op.Resp
	if o.noResp != "" {
		if want.T == "none" {
			return ""
		}
		return o.noResp + ", demanded " + fmt.Sprintf("%+v", want)
	}
	got := o.resp
	if got.T != want.T {
		return fmt.Sprintf("response %+v, demanded %+v", got, want)
	}
	switch want.T {
	case "connack":
		if want.Ok {
			if !got.Ok || got.Sp != want.Sp {
				return fmt.Sprintf("CONNACK code=0x%02X sp=%v, demanded success sp=%v", got.Code, got.Sp, want.Sp)
			}
		} else {
			// v5: the hook's reason code; v3: any refusing return code
			if got.Ok || (ver == mw.V5 && got.Code != want.Code) {
				return fmt.Sprintf("CONNACK code=0x%02X, demanded failing CONNACK 0x%02X", got.Code, want.Code)
			}
		}
	case "suback":
		if !reflect.DeepEqual(got.Codes, want.Codes) {
			return fmt.Sprintf("SUBACK %v, demanded %v", got.Codes, want.Codes)
		}
	case "unsuback":
		if ver == mw.V5 {
			if len(got.Codes) != len(want.Codes) {
				return fmt.Sprintf("UNSUBACK %v, demanded %v", got.Codes, want.Codes)
			}
			for i := range want.Codes {
				if (want.Codes[i] >= 0x80 && got.Codes[i] != want.Codes[i]) || (want.Codes[i] < 0x80 && got.Codes[i] >= 0x80) {
					return fmt.Sprintf("UNSUBACK %v, demanded %v", got.Codes, want.Codes)
				}
			}
		}
	case "puback", "pubrec":
		if ver == mw.V5 {
			if want.Ok != got.Ok || (!want.Ok && got.Code != want.Code) {
				return fmt.Sprintf("%s code=0x%02X, demanded ok=%v code=0x%02X", want.T, got.Code, want.Ok, want.Code)
			}
		}
	}
	return ""
}

var (
	skippedPre, unconfirmed, lostConnack, rejectedConnects int64
	confirmedSigs                                          sync.Map
)

type verdictDiv struct {
	sig, what string
	lost      bool
}

// replay runs one transition on a fresh broker; returns the divergences, or skipped=true when the pre-state could not
// be established.
func replay(ver byte, tr *Trans) (divs []verdictDiv, skipped bool, err error) {
	subjects := make([]string, 0, len(tr.St0.Sess))
	for c := range tr.St0.Sess {
		subjects = append(subjects, c)
	}
	w, e := newWorld(ver, subjects)
	if e != nil {
		return nil, false, e
	}
	defer w.close()
	for i := range tr.Pre {
		if _, e := w.apply(&tr.Pre[i]); e != nil {
			// the prefix could not be played (e.g. a connection that the model has online is not there): same as a pre-state mismatch
			return nil, true, nil
		}
	}
	s0 := w.project(subjects)
	a0, b0, c0, d0 := canonState(s0)
	a1, b1, c1, d1 := canonState(tr.St0)
	if a0 != a1 || b0 != b1 || c0 != c1 || d0 != d1 {
		return nil, true, nil
	}
	o, e := w.apply(&tr.Op)
	if e != nil {
		return nil, false, e
	}
	st := w.project(subjects)
	op := &tr.Op
	tag := op.V.tag()
	if op.Op == "connect" && op.Auth != "basic" {
		tag += "-" + op.Auth
	}
	base := "verdict:" + op.Op + ":" + tag + ":"
	desc := describe(op)
	if op.Op == "connect" && op.V.K == "reject" {
		atomic.AddInt64(&rejectedConnects, 1)
	}
	if d := respDiff(ver, op, o); d != "" {
		if op.Op == "connect" && op.V.K == "reject" && op.Auth != "enhanced2" && o.noResp != "" {
			divs = append(divs, verdictDiv{sig: "verdict:connect:reject:no-connack", what: desc + ": " + d, lost: true})
		} else {
			divs = append(divs, verdictDiv{sig: base + "resp", what: desc + ": " + d})
		}
	}
	if g, x := canonDlv(o.dlv), canonDlv(op.Dlv); g != x {
		divs = append(divs, verdictDiv{sig: base + "dlv", what: fmt.Sprintf("%s: deliveries [%s], demanded [%s]", desc, g, x)})
	}
	ga, gb, gc, gd := canonState(st)
	xa, xb, xc, xd := canonState(tr.St)
	if ga != xa {
		divs = append(divs, verdictDiv{sig: base + "sess", what: fmt.Sprintf("%s: sessions afterwards [%s], demanded [%s]", desc, ga, xa)})
	}
	if gb != xb {
		divs = append(divs, verdictDiv{sig: base + "will", what: fmt.Sprintf("%s: armed wills afterwards [%s], demanded [%s]", desc, gb, xb)})
	}
	if gc != xc {
		divs = append(divs, verdictDiv{sig: base + "subs", what: fmt.Sprintf("%s: subscriptions afterwards [%s], demanded [%s]", desc, gc, xc)})
	}
	if gd != xd {
		divs = append(divs, verdictDiv{sig: base + "ret", what: fmt.Sprintf("%s: retained store afterwards [%s] (before [%s]), demanded [%s]", desc, gd, d0, xd)})
	}
	return divs, false, nil
}

func describe(op *Op) string {
	v, _ := json.Marshal(op.V)
	switch op.Op {
	case "connect":
		return fmt.Sprintf("CONNECT %s clean=%v will=%v auth=%s, auth hook verdict %s", op.C, op.Clean, op.Will != nil && op.Will.Has != nil && *op.Will.Has, op.Auth, v)
	case "subscribe":
		return fmt.Sprintf("SUBSCRIBE %s %v, OnSubscribe verdict %s", op.C, op.Items, v)
	case "unsubscribe":
		return fmt.Sprintf("UNSUBSCRIBE %s %v, OnUnsubscribe verdict %s", op.C, op.Fs, v)
	case "publish":
		return fmt.Sprintf("PUBLISH %s topic=%s payload=%q qos=%d retain=%v, OnMsgArrived verdict %s", op.C, op.M.T, op.M.P, op.M.Q, op.M.R, v)
	case "abort":
		return fmt.Sprintf("abnormal end of %s, OnWillPublish verdict %s", op.C, v)
	}
	return op.Op + " " + op.C
}

func verdictMain() {
	ver := byte(*verFlag)
	var emitted int64
	err := tc.Each(os.Stdin, *par, false, nil, func(js []byte) {
		atomic.AddInt64(&emitted, 1)
		var tr Trans
		if err := json.Unmarshal(js, &tr); err != nil || tr.Case != "verdict" {
			rep.Count("bad_lines", 1)
			return
		}
		if len(tr.Pre) >= *fullDepth && !sampled(js) {
			return
		}
		divs, skipped, err := replay(ver, &tr)
		for try := 0; err != nil && try < 2; try++ {
			// again before calling it machinery trouble
			rep.Count("retried", 1)
			divs, skipped, err = replay(ver, &tr)
		}
		if err != nil {
			rep.Count("machinery", 1)
			noteTrouble(fmt.Sprintf("verdict replay: %v: %s", err, js))
			return
		}
		if skipped {
			atomic.AddInt64(&skippedPre, 1)
			return
		}
		atomic.AddInt64(&rep.N, 1)
		rep.Count("op:"+tr.Op.Op+":"+tr.Op.V.tag(), 1)
		if len(tr.Pre) > 0 {
			atomic.AddInt64(&rep.NonTriv, 1)
		}
		if len(tr.Pre) == 2 {
			rep.Sample(js, 1)
		}
		if len(divs) == 0 {
			return
		}
		// a divergence must show again on a second fresh broker (the lost CONNACK is a race: reported as observed);
		// signatures that have been confirmed several times already are only counted
		again := map[string]bool{}
		need := false
		for _, d := range divs {
			if n, _ := confirmedSigs.Load(d.sig); n != nil && n.(int) >= 5 {
				again[d.sig] = true
			} else if !d.lost {
				need = true
			}
		}
		if need {
			if divs2, _, err2 := replay(ver, &tr); err2 == nil {
				for _, d := range divs2 {
					again[d.sig] = true
					n, _ := confirmedSigs.Load(d.sig)
					if n == nil {
						n = 0
					}
					confirmedSigs.Store(d.sig, n.(int)+1)
				}
			}
		}
		for _, d := range divs {
			if d.lost {
				atomic.AddInt64(&lostConnack, 1)
				if !*tolLost {
					rep.Div(d.sig, d.what, js, nil)
				}
				continue
			}
			if !again[d.sig] {
				atomic.AddInt64(&unconfirmed, 1)
				fmt.Fprintf(os.Stderr, "unconfirmed divergence %s: %s\n", d.sig, d.what)
				continue
			}
			rep.Div(d.sig, d.what, js, nil)
		}
	})
	extra := map[string]interface{}{"emitted": emitted, "skipped_prestate": atomic.LoadInt64(&skippedPre), "unconfirmed": atomic.LoadInt64(&unconfirmed),
		"lost_connack": atomic.LoadInt64(&lostConnack), "rejected_connects": atomic.LoadInt64(&rejectedConnects), "ver": int(ver), "trouble": trouble}
	if err != nil {
		extra["fatal"] = err.Error()
	}
	rep.Summary(extra)
}

// ------------------------------------------------------------------------------------------------ rate of lost CONNACKs

func connrateMain() {
	var codes []int
	for _, s := range strings.Split(*codesFlag, ",") {
		var c int
		fmt.Sscanf(s, "%d", &c)
		codes = append(codes, c)
	}
	type variant struct {
		ver  byte
		auth string
	}
	variants := []variant{{mw.V311, "basic"}, {mw.V5, "basic"}, {mw.V5, "enhanced"}, {mw.V31, "basic"}}
	var lost, wrong, timeouts, leftovers, done, v3reserved int64
	perVar := make([]int64, len(variants))
	lostVar := make([]int64, len(variants))
	var firstLost atomic.Value
	var wg sync.WaitGroup
	idx := int64(-1)
	fatal := ""
	var fmu sync.Mutex
	for wkr := 0; wkr < *par; wkr++ {
		wg.Add(1)
		go func() {
			defer wg.Done()
			sc := &script{subjects: map[string]bool{"c1": true}}
			b, err := inproc.Start(inproc.Options{Cfg: inproc.DefaultConfig(), Server: []server.Options{server.WithHook(sc.hooks())}})
			if err != nil {
				fmu.Lock()
				fatal = err.Error()
				fmu.Unlock()
				return
			}
			defer b.Stop(5 * time.Second)
			for {
				i := atomic.AddInt64(&idx, 1)
				if i >= int64(*nFlag) {
					return
				}
				k := int((i + *seed) % int64(len(variants)))
				v := variants[k]
				code := codes[int((i/int64(len(variants))+*seed)%int64(len(codes)))]
				sc.mu.Lock()
				sc.conn, sc.auth = &Verdict{K: "reject", Code: code}, v.auth
				sc.mu.Unlock()
				p, err := dialPeer(b.Addr, v.ver, "c1")
				if err != nil {
					fmu.Lock()
					fatal = err.Error()
					fmu.Unlock()
					return
				}
				pk := mw.Connect(v.ver, "c1", i%2 == 0, 0)
				pk.WithWill("w/1", []byte("w"), 1, false, nil)
				if v.ver == mw.V5 {
					pk.Props = &mw.Props{SessionExpiry: mw.U32(600)}
					if v.auth != "basic" {
						pk.Props.AuthMethod = mw.Str("M")
					}
				}
				p.c.Send(pk)
				if v.auth == "enhanced2" {
					if _, ok, _ := p.wait(0, ackTO, isType(mw.AUTH)); ok {
						p.c.Send(&mw.Packet{Type: mw.AUTH, Code: 0x18, Props: &mw.Props{AuthMethod: mw.Str("M"), AuthData: []byte("answer"), HasAuthData: true}})
					}
				}
				ca, ok, ended := p.wait(0, ackTO, isType(mw.CONNACK))
				atomic.AddInt64(&done, 1)
				atomic.AddInt64(&perVar[k], 1)
				switch {
				case ok:
					wantCode := code
					if code == 256 {
						wantCode = 128
					}
					if v.ver != mw.V5 && ca.Code > 5 {
						atomic.AddInt64(&v3reserved, 1) // not judged here: any non-zero return code refuses the connection
					}
					if ca.Code == 0 || (v.ver == mw.V5 && int(ca.Code) != wantCode) {
						atomic.AddInt64(&wrong, 1)
						rep.Div("verdict:connect:reject:resp", fmt.Sprintf("rejected CONNECT (v%d, %s, hook code 0x%02X) answered with CONNACK 0x%02X", v.ver, v.auth, code, ca.Code), nil, nil)
					}
				default:
					// no CONNACK: the broker ended the connection, or left it open and silent
					atomic.AddInt64(&lost, 1)
					atomic.AddInt64(&lostVar[k], 1)
					if !ended {
						atomic.AddInt64(&timeouts, 1)
					}
					firstLost.CompareAndSwap(nil, fmt.Sprintf("attempt %d: v%d auth=%s code=0x%02X closed=%v", i, v.ver, v.auth, code, ended))
				}
				p.close()
				// a rejected CONNECT leaves nothing behind
				n := 0
				b.Srv.ClientService().IterateSession(func(*gmqtt.Session) bool { n++; return true })
				b.Srv.SubscriptionService().Iterate(func(string, *gmqtt.Subscription) bool { n++; return true }, subscription.IterationOptions{Type: subscription.TypeAll})
				b.Srv.RetainedService().Iterate(func(*gmqtt.Message) bool { n++; return true })
				if b.Srv.ClientService().GetClient("c1") != nil {
					n++
				}
				if n != 0 {
					atomic.AddInt64(&leftovers, 1)
					rep.Div("verdict:connect:reject:sess", fmt.Sprintf("rejected CONNECT (v%d, %s) left %d session/subscription/retained/client entries behind", v.ver, v.auth, n), nil, nil)
				}
			}
		}()
	}
	wg.Wait()
	atomic.StoreInt64(&rep.N, done)
	if lost > 0 {
		fl, _ := firstLost.Load().(string)
		rep.Div("verdict:connect:reject:no-connack", fmt.Sprintf("%d of %d rejected CONNECTs got no CONNACK at all (%d of them: connection left open and silent for %v) (first: %s)", lost, done, timeouts, ackTO, fl), nil,
			map[string]interface{}{"lost": lost, "attempts": done})
	}
	vs := map[string]interface{}{}
	for i, v := range variants {
		vs[fmt.Sprintf("v%d-%s", v.ver, v.auth)] = map[string]int64{"attempts": perVar[i], "lost": lostVar[i]}
	}
	extra := map[string]interface{}{"attempts": done, "lost": lost, "wrong_code": wrong, "lost_left_open": timeouts, "leftovers": leftovers, "v3_reserved_return_code": v3reserved, "variants": vs, "codes": len(codes)}
	if fatal != "" {
		extra["fatal"] = fatal
	}
	rep.Summary(extra)
}

var _ = bytes.Equal
var _ = io.EOF
