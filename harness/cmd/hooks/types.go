package main

import (
	"context"

	"github.com/DrmagicE/gmqtt/pkg/codes"
	"github.com/DrmagicE/gmqtt/pkg/packets"
)

// broker-side types that appear in hook signatures (the scripted clients use mqttwire only)
type (
	ctxT       = context.Context
	authT      = packets.Auth
	codesError = codes.Error
)
