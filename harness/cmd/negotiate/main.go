// negotiate executes the cases printed by TLC from spec/Negotiate.tla on real brokers: one broker per configuration,
// one fresh connection per case through the independent codec; CONNACK (code, advertised properties) and the answer
// to one request are compared with the outcome the specification demands.
package main

import (
	"encoding/json"
	"flag"
	"fmt"
	"io"
	"os"
	"strings"
	"sync"
	"sync/atomic"
	"time"

	"verifharness/inproc"
	mw "verifharness/mqttwire"
	"verifharness/tc"
)

type Cfg struct {
	MaxQos    int  `json:"maxqos"`
	Retain    bool `json:"retain"`
	Wildcard  bool `json:"wildcard"`
	SubID     bool `json:"subid"`
	Shared    bool `json:"shared"`
	MaxKA     int  `json:"maxka"`
	AllowZero bool `json:"allowzero"`
}

type Conn struct {
	Ver     int  `json:"ver"`
	EmptyID bool `json:"emptyid"`
	Clean   bool `json:"clean"`
	KA      int  `json:"ka"`
}

type Op struct {
	Op     string `json:"op"`
	Q      int    `json:"q"`
	Retain bool   `json:"retain"`
	Kind   string `json:"kind"`
	WithID bool   `json:"withid"`
}

type Line struct {
	Case struct {
		Cfg  Cfg  `json:"cfg"`
		Conn Conn `json:"conn"`
		Op   Op   `json:"op"`
	} `json:"case"`
	Connack struct {
		Accept bool `json:"accept"`
		Code   int  `json:"code"`
	} `json:"connack"`
	Adv map[string]interface{} `json:"adv"`
	Res struct {
		T    string `json:"t"`
		Code int    `json:"code"`
	} `json:"res"`
}

var (
	rep     = tc.NewReporter()
	mu      sync.Mutex
	brokers = map[Cfg]*inproc.Broker{}
	nconn   int64
	ackTO   = 3 * time.Second
)

func broker(c Cfg) (*inproc.Broker, error) {
	mu.Lock()
	defer mu.Unlock()
	if b := brokers[c]; b != nil {
		return b, nil
	}
	cfg := inproc.DefaultConfig()
	cfg.MQTT.MaximumQoS = uint8(c.MaxQos)
	cfg.MQTT.RetainAvailable = c.Retain
	cfg.MQTT.WildcardAvailable = c.Wildcard
	cfg.MQTT.SubscriptionIDAvailable = c.SubID
	cfg.MQTT.SharedSubAvailable = c.Shared
	cfg.MQTT.MaxKeepAlive = uint16(c.MaxKA)
	cfg.MQTT.AllowZeroLenClientID = c.AllowZero
	b, err := inproc.Start(inproc.Options{Cfg: cfg})
	if err != nil {
		return nil, err
	}
	brokers[c] = b
	return b, nil
}

func num(v interface{}) int {
	switch x := v.(type) {
	case float64:
		return int(x)
	case bool:
		if x {
			return 1
		}
		return 0
	}
	return -99
}

func flag01(p *byte, absent int) int {
	if p == nil {
		return absent
	}
	return int(*p)
}

func one(js []byte) {
	var l Line
	if err := json.Unmarshal(js, &l); err != nil {
		rep.Div("harness", "cannot parse case: "+err.Error(), js, nil)
		return
	}
	atomic.AddInt64(&rep.N, 1)
	c, k, o := l.Case.Cfg, l.Case.Conn, l.Case.Op
	b, err := broker(c)
	if err != nil {
		rep.Div("harness", "broker start: "+err.Error(), js, nil)
		return
	}
	ver := byte(mw.V311)
	if k.Ver == 5 {
		ver = mw.V5
	}
	cl, err := mw.Dial(b.Addr, ver, 3*time.Second)
	for i := 0; err != nil && i < 20; i++ {
		time.Sleep(50 * time.Millisecond)
		cl, err = mw.Dial(b.Addr, ver, 3*time.Second)
	}
	if err != nil {
		rep.Div("harness", "dial: "+err.Error(), js, nil)
		return
	}
	defer cl.Close()
	cid := ""
	if !k.EmptyID {
		cid = fmt.Sprintf("n%d", atomic.AddInt64(&nconn, 1))
	}
	pk := mw.Connect(ver, cid, k.Clean, uint16(k.KA))
	if ver == mw.V5 {
		pk.Props = &mw.Props{}
	}
	pk.Version = ver
	if err := cl.Send(pk); err != nil {
		rep.Div("harness", "send connect: "+err.Error(), js, nil)
		return
	}
	what := func(s string) string {
		return fmt.Sprintf("config %+v, CONNECT %+v: %s", c, k, s)
	}
	ack, _, err := cl.RecvType(mw.CONNACK, ackTO)
	gotCode := 0
	switch {
	case err == nil:
		gotCode = int(ack.Code)
	case mw.IsTimeout(err):
		rep.Div("connack:silence", what("neither CONNACK nor close within 3 s"), js, nil)
		return
	case err == io.EOF || strings.Contains(err.Error(), "EOF") || strings.Contains(err.Error(), "reset"):
		gotCode = -2 // closed without CONNACK
	default:
		gotCode = -3 // bytes that are no CONNACK of this protocol version
	}
	if (gotCode == 0) != l.Connack.Accept || (!l.Connack.Accept && gotCode != l.Connack.Code) {
		detail := ""
		if err != nil {
			detail = " (" + err.Error() + ")"
		}
		rep.Div(fmt.Sprintf("connack:code:want=%d,got=%d", l.Connack.Code, gotCode),
			what(fmt.Sprintf("CONNACK code %d%s, demanded %d (-2: closed without CONNACK, -3: unreadable CONNACK)", gotCode, detail, l.Connack.Code)), js, nil)
		return
	}
	if gotCode != 0 {
		return
	}
	if ver == mw.V5 {
		ps := ack.Props
		if ps == nil {
			ps = &mw.Props{}
		}
		got := map[string]int{
			"maxqos":   flag01(ps.MaxQoS, -1),
			"retain":   flag01(ps.RetainAvailable, 1),
			"wildcard": flag01(ps.WildcardSubAvailable, 1),
			"subid":    flag01(ps.SubIDAvailable, 1),
			"shared":   flag01(ps.SharedSubAvailable, 1),
		}
		if ps.ServerKeepAlive != nil {
			got["keepalive"] = int(*ps.ServerKeepAlive)
		} else {
			got["keepalive"] = k.KA // absent: the client's value stands
		}
		got["assigned"] = 0
		if ps.AssignedClientID != nil && *ps.AssignedClientID != "" {
			got["assigned"] = 1
		}
		for _, f := range []string{"maxqos", "retain", "wildcard", "subid", "shared", "keepalive", "assigned"} {
			if want := num(l.Adv[f]); got[f] != want {
				rep.Div(fmt.Sprintf("advertised:%s:want=%d,got=%d", f, want, got[f]),
					what(fmt.Sprintf("CONNACK advertises %s = %d (-1: absent), demanded %d", f, got[f], want)), js, nil)
			}
		}
	}
	// the request
	var res string
	code := 0
	wait := func(pred func(*mw.Packet) bool) *mw.Packet {
		deadline := time.Now().Add(ackTO)
		for time.Now().Before(deadline) {
			p, err := cl.Recv(time.Until(deadline))
			if err != nil {
				if mw.IsTimeout(err) {
					return nil
				}
				res = "closed"
				return nil
			}
			if p.Type == mw.DISCONNECT {
				res, code = "disconnect", int(p.Code)
				return nil
			}
			if pred(p) {
				return p
			}
		}
		return nil
	}
	switch o.Op {
	case "ping":
		cl.Send(mw.Pingreq())
		if wait(func(p *mw.Packet) bool { return p.Type == mw.PINGRESP }) != nil {
			res = "pingresp"
		}
	case "pub":
		var pid uint16
		if o.Q > 0 {
			pid = 7
		}
		p := mw.Publish("n/t", byte(o.Q), o.Retain, pid, []byte("x"))
		if ver == mw.V5 {
			p.Props = &mw.Props{}
		}
		p.Version = ver
		cl.Send(p)
		if o.Q == 0 {
			cl.Send(mw.Pingreq())
			if wait(func(p *mw.Packet) bool { return p.Type == mw.PINGRESP }) != nil {
				res = "ack"
			}
		} else {
			want := byte(mw.PUBACK)
			if o.Q == 2 {
				want = mw.PUBREC
			}
			if a := wait(func(p *mw.Packet) bool { return p.Type == want && p.PacketID == pid }); a != nil {
				res, code = "ack", 0
				if a.Code >= 0x80 {
					res, code = "nack", int(a.Code)
				}
			}
		}
	case "sub":
		f := map[string]string{"plain": "n/t", "wild": "n/+", "shared": "$share/g/n/t"}[o.Kind]
		p := mw.Subscribe(9, mw.SubTopic{Filter: f, QoS: 1})
		if ver == mw.V5 {
			p.Props = &mw.Props{}
			if o.WithID {
				p.Props.SubscriptionIDs = []uint32{5}
			}
		}
		p.Version = ver
		cl.Send(p)
		if a := wait(func(p *mw.Packet) bool { return p.Type == mw.SUBACK && p.PacketID == 9 }); a != nil && len(a.Codes) == 1 {
			res, code = "suback", int(a.Codes[0])
		}
	}
	if res == "" {
		res = "silence"
	}
	if res != l.Res.T || code != l.Res.Code {
		rep.Div(fmt.Sprintf("request:%s:want=%s/%d,got=%s/%d", o.Op, l.Res.T, l.Res.Code, res, code),
			what(fmt.Sprintf("request %+v answered %s (code 0x%02x), demanded %s (code 0x%02x)", o, res, code, l.Res.T, l.Res.Code)), js, nil)
	} else {
		rep.Sample(js, 3)
		atomic.AddInt64(&rep.NonTriv, 1)
	}
}

func main() {
	workers := flag.Int("workers", 16, "")
	raw := flag.Bool("raw", false, "stdin lines are plain JSON instead of TLA+ string literals")
	flag.Parse()
	if err := tc.Each(os.Stdin, *workers, *raw, nil, one); err != nil {
		fmt.Fprintln(os.Stderr, err)
		os.Exit(2)
	}
	for _, b := range brokers {
		b.Stop(3 * time.Second)
	}
	rep.Summary(map[string]interface{}{"brokers": len(brokers)})
}
