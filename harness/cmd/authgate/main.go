// authgate replays every transition of the AuthGate model (TLC output on stdin) against a REAL in-process
// broker running the REAL auth plugin (property C19).  Per transition: fresh scratch directory + fresh
// broker, the path `pre` is applied, then the operation, then the projection of the abstract state is read
// back from the real system:
//
//	tokens   -> service snapshots (ClientService sessions + clients, SubscriptionService, RetainedService)
//	            and the authenticated "victim" client (still connected, received nothing)
//	accounts -> account API (List/Get) and one probe CONNECT per (storable user, storable password)
//	file     -> the same probe matrix after a Stop + new broker on the same password file
//
// The oracle is the specification: accept/reject and the projections come from TLC's output.  The concrete
// strings behind the abstract tokens (near misses, empty, 65535 bytes ...) come from the meta file.
package main

import (
	"context"
	"encoding/json"
	"errors"
	"flag"
	"fmt"
	"hash/fnv"
	"io"
	"net"
	"os"
	"path/filepath"
	"runtime/debug"
	"runtime/pprof"
	"sort"
	"strings"
	"sync"
	"sync/atomic"
	"time"

	"github.com/DrmagicE/gmqtt"
	"github.com/DrmagicE/gmqtt/persistence/subscription"
	"github.com/DrmagicE/gmqtt/plugin/auth"
	"github.com/DrmagicE/gmqtt/server"
	"github.com/gorilla/websocket"

	"verifharness/inproc"
	mw "verifharness/mqttwire"
	"verifharness/tc"
)

// ---------------------------------------------------------------------------------------------- input

type Op struct {
	Op    string `json:"op"`
	U     string `json:"u"`
	P     string `json:"p"`
	Shape string `json:"shape"`
	Ln    string `json:"ln"`
	Uf    bool   `json:"uf"`
	Ua    string `json:"ua"`
	Pf    bool   `json:"pf"`
	Pa    string `json:"pa"`
	Cid   string `json:"cid"`
	Will  bool   `json:"will"`
	Res   string `json:"res"`
	Kind  string `json:"kind"`
	Phase string `json:"phase"`
	Ver   string `json:"ver"`
}

type UP struct {
	U string `json:"u"`
	P string `json:"p"`
}

type Trans struct {
	Pre  []Op     `json:"pre"`
	Op   Op       `json:"op"`
	Acc  []UP     `json:"acc"`
	File []UP     `json:"file"`
	Tok  []string `json:"tok"`
}

// Meta is the concretisation of one pack.
type Meta struct {
	Pack      string            `json:"pack"`
	Algo      string            `json:"algo"`
	Mode      string            `json:"mode"` // abs | rel (config dir != working dir) | relsame (config dir == working dir)
	Root      string            `json:"root"` // scratch root (exists); the process changes into <root>/cwd
	Users     []string          `json:"users"`
	Passwords []string          `json:"passwords"`
	Names     map[string]string `json:"names"` // user token -> string
	Pws       map[string]string `json:"pws"`   // password token -> string
	Seed      int64             `json:"seed"`
}

const (
	victimID    = "victim"
	victimTopic = "vt/a"
	victimRet   = "vr/a"
	victimRetPl = "keep"
	evilRet     = "vr/evil"
	willTopic   = "vw/a"
)

var (
	meta   Meta
	rep    = tc.NewReporter()
	ids    int64
	cwdDir string
	hard   = 3 * time.Second
	// the sandbox stalls whole processes for seconds when it is oversubscribed: answers are awaited this long, and
	// everything that needed more than `hard` is counted as slow (never a verdict by itself)
	patience = 20 * time.Second
	timing = os.Getenv("AUTHGATE_TIMING") != ""
)

// ---------------------------------------------------------------------------------------------- hook watches

type watch struct {
	wexit, closed chan struct{}
	o1, o2        sync.Once
}

// wkey: one local port may be in use towards several brokers at the same time
type wkey struct {
	srv  interface{}
	addr string
}

var watches sync.Map // (broker, client-side local address) -> *watch

func newWatch(k wkey) *watch {
	w := &watch{wexit: make(chan struct{}), closed: make(chan struct{})}
	watches.Store(k, w)
	return w
}

func installHooks() error {
	// inproc installs its trace function on the first Start; chain ours behind it once, before any worker runs
	b, err := inproc.Start(inproc.Options{Cfg: inproc.DefaultConfig()})
	if err != nil {
		return err
	}
	_ = b.Stop(hard)
	prev := server.VerifTrace
	server.VerifTrace = func(srv interface{}, ev string, kv ...interface{}) {
		if ev == "exit.write" || ev == "closed" {
			for i := 0; i+1 < len(kv); i += 2 {
				if k, _ := kv[i].(string); k == "conn" {
					if a, _ := kv[i+1].(string); a != "" {
						if v, ok := watches.Load(wkey{srv, a}); ok {
							w := v.(*watch)
							if ev == "exit.write" {
								w.o1.Do(func() { close(w.wexit) })
							} else {
								w.o2.Do(func() { close(w.closed) })
							}
						}
					}
				}
			}
		}
		if prev != nil {
			prev(srv, ev, kv...)
		}
	}
	return nil
}

// ---------------------------------------------------------------------------------------------- websocket stream

type addrConn struct {
	net.Conn
	local net.Addr
}

func (a *addrConn) LocalAddr() net.Addr { return a.local }

// dialWS bridges a websocket connection (binary messages) to a net.Conn with working deadlines.
func dialWS(addr string) (net.Conn, error) {
	d := websocket.Dialer{Subprotocols: []string{"mqtt"}, HandshakeTimeout: hard}
	var c *websocket.Conn
	var err error
	for i := 0; i < 40; i++ {
		c, _, err = d.Dial("ws://"+addr+"/", nil)
		if err == nil {
			break
		}
		time.Sleep(25 * time.Millisecond)
	}
	if err != nil {
		return nil, err
	}
	p1, p2 := net.Pipe()
	go func() { // broker -> client
		for {
			_, r, err := c.NextReader()
			if err != nil {
				p2.Close()
				return
			}
			if _, err := io.Copy(p2, r); err != nil {
				c.Close()
				return
			}
		}
	}()
	go func() { // client -> broker
		buf := make([]byte, 256<<10)
		for {
			n, err := p2.Read(buf)
			if n > 0 {
				if e := c.WriteMessage(websocket.BinaryMessage, buf[:n]); e != nil {
					p2.Close()
					return
				}
			}
			if err != nil {
				c.Close()
				return
			}
		}
	}()
	return &addrConn{Conn: p1, local: c.UnderlyingConn().LocalAddr()}, nil
}

// ---------------------------------------------------------------------------------------------- environment

type env struct {
	id      int64
	line    []byte
	ws      bool
	confdir string
	pwfile  string
	dirs    []string
	b       *inproc.Broker
	a       *auth.Auth
	victim  *mw.Client
	nconn   int
	failed  bool // a divergence was reported for this transition
	acc     []UP // accounts of the specification after the operation (for messages)
	// the operation's own result (accept/reject) differed: the state projection presupposes the predicted result
	resultDiverged bool
	afterRestart   bool // the operation under test is `restart`: every difference of the live accounts is one finding
}

type machinery struct{ msg string }

func (m machinery) Error() string { return m.msg }

func newEnv(line []byte, ws bool) (*env, error) {
	e := &env{id: atomic.AddInt64(&ids, 1), line: line, ws: ws}
	t := fmt.Sprintf("t%d", e.id)
	mk := func(d string) error {
		e.dirs = append(e.dirs, d)
		return os.MkdirAll(d, 0o777)
	}
	switch meta.Mode {
	case "abs":
		base := filepath.Join(meta.Root, "abs", t)
		e.confdir = filepath.Join(base, "conf")
		e.pwfile = filepath.Join(base, "pw.yml")
		if err := mk(base); err != nil {
			return nil, err
		}
		if err := mk(e.confdir); err != nil {
			return nil, err
		}
	case "rel":
		e.confdir = filepath.Join(meta.Root, "conf")
		e.pwfile = t + "/pw.yml"
		if err := mk(filepath.Join(e.confdir, t)); err != nil {
			return nil, err
		}
		if err := mk(filepath.Join(cwdDir, t)); err != nil {
			return nil, err
		}
	case "relsame":
		e.confdir = cwdDir
		e.pwfile = t + "/pw.yml"
		if err := mk(filepath.Join(cwdDir, t)); err != nil {
			return nil, err
		}
	default:
		return nil, fmt.Errorf("unknown mode %q", meta.Mode)
	}
	return e, nil
}

func (e *env) start() error {
	cfg := inproc.DefaultConfig()
	cfg.PluginOrder = []string{auth.Name}
	cfg.Plugins[auth.Name] = &auth.Config{PasswordFile: e.pwfile, Hash: meta.Algo}
	cfg.ConfigDir = e.confdir
	var b *inproc.Broker
	var err error
	for try := 0; try < 3; try++ {
		b, err = inproc.Start(inproc.Options{Cfg: cfg, Websocket: e.ws})
		if err == nil {
			break
		}
	}
	if err != nil {
		return machinery{"broker start: " + err.Error()}
	}
	e.b = b
	e.a = nil
	for _, p := range b.Srv.Plugins() {
		if a, ok := p.(*auth.Auth); ok {
			e.a = a
		}
	}
	if e.a == nil {
		return machinery{"auth plugin not loaded"}
	}
	return nil
}

func (e *env) stop() error {
	if e.victim != nil {
		e.victim.Close()
		e.victim = nil
	}
	if e.b == nil {
		return nil
	}
	err := e.b.Stop(10 * time.Second)
	e.b = nil
	return err
}

func (e *env) cleanup() {
	_ = e.stop()
	for i := len(e.dirs) - 1; i >= 0; i-- {
		os.RemoveAll(e.dirs[i])
	}
}

func (e *env) div(sig, what string, extra interface{}) {
	e.failed = true
	rep.Div(sig, what, e.line, extra)
}

// ---------------------------------------------------------------------------------------------- wire helpers

func verByte(s string) byte {
	switch s {
	case "v31":
		return mw.V31
	case "v311":
		return mw.V311
	}
	return mw.V5
}

type conn struct {
	c *mw.Client
	w *watch
	a wkey
}

func (e *env) dial(ln string, ver byte) (*conn, error) {
	var nc net.Conn
	var err error
	if ln == "ws" {
		nc, err = dialWS(e.b.WsAddr)
	} else {
		nc, err = net.DialTimeout("tcp", e.b.Addr, hard)
	}
	if err != nil {
		return nil, machinery{"dial " + ln + ": " + err.Error()}
	}
	a := wkey{interface{}(e.b.Srv), nc.LocalAddr().String()}
	return &conn{c: mw.NewClient(nc, ver), w: newWatch(a), a: a}, nil
}

// done closes the client side and waits until the broker has finished with the connection.
func (k *conn) done() (serverDone bool) {
	k.c.Close()
	t0 := time.Now()
	select {
	case <-k.w.closed:
		serverDone = true
		if time.Since(t0) > hard {
			rep.Count("slow:connection_finished_after_more_than_3s", 1)
		}
	case <-time.After(patience):
	}
	watches.Delete(k.a)
	return
}

type outcome struct {
	Kind   string `json:"kind"` // accept | reject | noconnack | other
	Code   byte   `json:"code"`
	Closed bool   `json:"closed"` // the broker closed the connection (EOF seen)
	WExit  bool   `json:"writer_exited"`
	Detail string `json:"detail,omitempty"`
}

// awaitConnack waits for the broker's answer to a CONNECT.  Absence is decided by the broker's own writer having
// exited (hook event exit.write) plus a grace period, not by patience alone.
func (k *conn) awaitConnack() outcome {
	t0 := time.Now()
	step := 2 * time.Millisecond
	classify := func(p *mw.Packet) outcome {
		if time.Since(t0) > hard {
			rep.Count("slow:connack_after_more_than_3s", 1)
		}
		if p.Type == mw.CONNACK {
			if p.Code == 0 {
				return outcome{Kind: "accept"}
			}
			return outcome{Kind: "reject", Code: p.Code}
		}
		return outcome{Kind: "other", Detail: mw.TypeName(p.Type)}
	}
	for {
		p, err := k.c.Recv(step)
		if err == nil {
			return classify(p)
		}
		if mw.IsMalformed(err) {
			return outcome{Kind: "other", Detail: err.Error()}
		}
		if !mw.IsTimeout(err) {
			return outcome{Kind: "noconnack", Closed: true, Detail: err.Error()}
		}
		select {
		case <-k.w.wexit:
			// whatever the writer wrote is in the socket already; the long deadline only guards against our own stalls
			p, err = k.c.Recv(time.Second)
			if err == nil {
				return classify(p)
			}
			return outcome{Kind: "noconnack", WExit: true, Closed: !mw.IsTimeout(err), Detail: "writer goroutine exited, nothing written"}
		default:
		}
		if time.Since(t0) > patience {
			return outcome{Kind: "noconnack", Detail: "silence for 20s, writer still alive"}
		}
		if step < 20*time.Millisecond {
			step *= 2
		}
	}
}

func (e *env) cid(abstract string) string {
	if abstract == "victim" {
		return victimID
	}
	e.nconn++
	return fmt.Sprintf("att%d", e.nconn)
}

func connectPacket(shape string, cid string, uf bool, user string, pf bool, pass string, will bool) *mw.Packet {
	ver := verByte(strings.TrimSuffix(strings.TrimSuffix(strings.TrimSuffix(shape, "am0"), "amd"), "am"))
	p := mw.Connect(ver, cid, true, 0)
	if uf {
		p.HasUsername, p.Username = true, user
	}
	if pf {
		p.HasPassword, p.Password = true, []byte(pass)
	}
	switch shape {
	case "v5am":
		p.Props = &mw.Props{AuthMethod: mw.Str("SCRAM-SHA-1")}
	case "v5am0":
		p.Props = &mw.Props{AuthMethod: mw.Str("")} // the property is present, its value is the empty string
	case "v5amd":
		p.Props = &mw.Props{AuthMethod: mw.Str("SCRAM-SHA-1"), AuthData: []byte("n,,n=user,r=fyko+d2lbbFgONRv9qkxdawL"), HasAuthData: true}
	}
	if will {
		p.WithWill(willTopic, []byte("will"), 1, true, nil)
	}
	return p
}

func name(tok string) string {
	if tok == "-" {
		return ""
	}
	s, ok := meta.Names[tok]
	if !ok {
		panic("no concretisation for user token " + tok)
	}
	return s
}

func pw(tok string) string {
	if tok == "-" {
		return ""
	}
	s, ok := meta.Pws[tok]
	if !ok {
		panic("no concretisation for password token " + tok)
	}
	return s
}

// attempt performs one complete CONNECT exchange; on accept it disconnects cleanly.
func (e *env) attempt(ln string, pkt *mw.Packet, barrier bool) (outcome, error) {
	t0 := time.Now()
	k, err := e.dial(ln, pkt.Version)
	if err != nil {
		return outcome{}, err
	}
	t1 := time.Now()
	if err := k.c.Send(pkt); err != nil {
		k.done()
		return outcome{}, machinery{"send CONNECT: " + err.Error()}
	}
	o := k.awaitConnack()
	t2 := time.Now()
	if o.Kind == "accept" {
		_ = k.c.Send(mw.Disconnect(0))
	}
	defer func() {
		if timing {
			rep.Count("us:att:dial", int64(t1.Sub(t0)/time.Microsecond))
			rep.Count("us:att:connack:"+o.Kind, int64(t2.Sub(t1)/time.Microsecond))
			rep.Count("us:att:done:"+o.Kind, int64(time.Since(t2)/time.Microsecond))
			rep.Count("n:att:"+o.Kind, 1)
		}
	}()
	if barrier && o.Kind == "reject" && (e.id+int64(e.nconn))%16 == 0 {
		// sampled observation (no verdict): does the broker close the connection after a failing CONNACK?
		if _, err := k.c.Recv(50 * time.Millisecond); err != nil && !mw.IsTimeout(err) {
			rep.Count("after_failing_connack:broker_closed_connection", 1)
		} else {
			rep.Count("after_failing_connack:connection_left_open_50ms", 1)
		}
	}
	if !barrier {
		// probes: nothing is judged on what the broker does with this connection afterwards
		k.c.Close()
		watches.Delete(k.a)
		return o, nil
	}
	if !k.done() {
		rep.Count("broker_did_not_finish_connection_within_20s", 1)
		rep.Count(fmt.Sprintf("broker_did_not_finish_connection_within_20s:connect:v%d:%s:userlen=%d:passlen=%d", pkt.Version, o.Kind, len(pkt.Username), len(pkt.Password)), 1)
	}
	return o, nil
}

// ---------------------------------------------------------------------------------------------- operations

func (e *env) restart() error {
	if err := e.stop(); err != nil {
		return machinery{"Stop: " + err.Error()}
	}
	return e.start()
}

func (e *env) populate(op Op) error {
	k, err := e.dial("tcp", mw.V311)
	if err != nil {
		return err
	}
	c := k.c
	p := mw.Connect(mw.V311, victimID, true, 0).WithAuth(name(op.U), []byte(pw(op.P)))
	if err := c.Send(p); err != nil {
		return machinery{"victim send: " + err.Error()}
	}
	o := k.awaitConnack()
	if o.Kind != "accept" {
		k.done()
		return fmt.Errorf("victim with stored credentials not accepted: %+v", o)
	}
	_ = c.Send(mw.Subscribe(1, mw.SubTopic{Filter: victimTopic, QoS: 1}))
	if _, _, err := c.RecvType(mw.SUBACK, patience); err != nil {
		return machinery{"victim SUBACK: " + err.Error()}
	}
	_ = c.Send(mw.Publish(victimRet, 1, true, 2, []byte(victimRetPl)))
	if _, _, err := c.RecvType(mw.PUBACK, patience); err != nil {
		return machinery{"victim PUBACK: " + err.Error()}
	}
	e.victim = c
	return nil
}

func grpcErr(err error) string {
	if err == nil {
		return ""
	}
	return err.Error()
}

// apply executes one operation; check says whether its predicted result is compared.
// A returned error that is not `machinery` means the path could not be followed (consequence of a divergence).
func (e *env) apply(op Op, check bool) error {
	switch op.Op {
	case "update":
		_, err := e.a.Update(context.Background(), &auth.UpdateAccountRequest{Username: name(op.U), Password: pw(op.P)})
		if err != nil {
			if check {
				e.div("c19:api:update-failed:"+meta.Mode+":"+meta.Algo, "Update("+op.U+","+op.P+") returned an error: "+err.Error(), nil)
			}
			return fmt.Errorf("update: %v", err)
		}
	case "delete":
		_, err := e.a.Delete(context.Background(), &auth.DeleteAccountRequest{Username: name(op.U)})
		if err != nil {
			if check {
				e.div("c19:api:delete-failed:"+meta.Mode+":"+meta.Algo, "Delete("+op.U+") returned an error: "+err.Error(), nil)
			}
			return fmt.Errorf("delete: %v", err)
		}
	case "restart":
		return e.restart()
	case "populate":
		return e.populate(op)
	case "connect":
		return e.connect(op, check)
	case "preauth":
		return e.preauth(op, check)
	default:
		return machinery{"unknown op " + op.Op}
	}
	return nil
}

func flagsName(op Op) string {
	switch {
	case op.Uf && op.Pf:
		return "user+pass"
	case op.Uf:
		return "user-only"
	case op.Pf:
		return "pass-only"
	}
	return "no-credentials"
}

func class(tok string) string {
	if i := strings.IndexByte(tok, '.'); i >= 0 {
		return tok[i+1:]
	}
	for _, u := range meta.Users {
		if u == tok {
			return "exact"
		}
	}
	return tok
}

// judge compares one CONNECT outcome with the predicted result; probe=true for the projection probes.
func (e *env) judge(op Op, o outcome, where string) {
	rep.Count("connects", 1)
	wellformed := !((op.Shape == "v31" || op.Shape == "v311") && op.Pf && !op.Uf)
	if op.Res == "reject" && wellformed {
		rep.Count("reject_owed_connack", 1)
	}
	shape := fmt.Sprintf("%s:%s:user=%s:pass=%s:algo=%s", op.Shape, flagsName(op), class(op.Ua), op.Pa, meta.Algo)
	probe := strings.HasPrefix(where, "probe")
	if o.Kind == "noconnack" && o.WExit && op.Res == "accept" {
		// refused (the broker's writer for this connection is gone) and the failing CONNACK lost on top: two findings
		e.lostConnack(shape, o)
		o.Kind, o.Code = "reject", 0xff
	}
	switch o.Kind {
	case "other":
		e.div("c19:"+where+":unexpected-answer:"+o.Detail, fmt.Sprintf("CONNECT (%s) answered by %s", shape, o.Detail), o)
		return
	case "accept":
		rep.Count("accepted", 1)
		if op.Res == "reject" && probe && e.afterRestart {
			e.div("c19:restarted-broker-accepts-account-not-in-saved-state:pwfile="+meta.Mode+":after-restart",
				fmt.Sprintf("after Restart (Stop + start on the same password file, %s path) probe CONNECT %s/%s is accepted, the specification's accounts are %v", meta.Mode, op.Ua, op.Pa, e.acc), o)
		} else if op.Res == "reject" && probe {
			e.div("c19:"+where+":ACCEPTED-not-stored:pwfile="+meta.Mode,
				fmt.Sprintf("probe CONNECT %s/%s accepted, the specification's accounts are %v", op.Ua, op.Pa, e.acc), o)
		} else if op.Res == "reject" {
			e.resultDiverged = true
			long := ""
			if sp, ok := accMap(e.acc)[op.Ua]; ok && len(pw(sp)) >= 72 {
				long = ":stored-password-72-bytes-or-more"
			}
			e.div(fmt.Sprintf("c19:ACCEPTED-without-valid-credentials:%s:user=%s:pass=%s:algo=%s%s", flagsName(op), class(op.Ua), op.Pa, meta.Algo, long),
				fmt.Sprintf("CONNECT accepted although the specification demands reject: %s user=%q password=%q accounts=%v", shape, trunc(name(op.Ua)), trunc(pw(op.Pa)), e.acc), o)
		} else if op.Res == "any" {
			rep.Count("dontcare_absent_password_vs_stored_empty:accepted", 1)
		}
	case "reject":
		rep.Count("rejected", 1)
		rep.Count(fmt.Sprintf("reject_code:%s:0x%02x", strings.TrimSuffix(strings.TrimSuffix(op.Shape, "amd"), "am"), o.Code), 1)
		if op.Res == "accept" {
			if probe && e.afterRestart {
				e.div("c19:restarted-broker-lost-account-state:pwfile="+meta.Mode+":after-restart",
					fmt.Sprintf("after Restart (Stop + start on the same password file, %s path) probe CONNECT %s/%s is rejected (0x%02x), the specification's accounts are %v", meta.Mode, op.Ua, op.Pa, o.Code, e.acc), o)
			} else if probe {
				e.div("c19:"+where+":stored-account-rejected:pwfile="+meta.Mode,
					fmt.Sprintf("probe CONNECT %s/%s rejected (0x%02x), the specification's accounts are %v", op.Ua, op.Pa, o.Code, e.acc), o)
			} else if op.Shape == "v5am" || op.Shape == "v5amd" || op.Shape == "v5am0" {
				e.resultDiverged = true
				e.div("c19:valid-credentials-rejected-when-authentication-method-present",
					fmt.Sprintf("v5 CONNECT with stored user + matching password and an Authentication Method property rejected with 0x%02x (%s)", o.Code, shape), o)
			} else {
				e.resultDiverged = true
				e.div("c19:"+where+":valid-credentials-rejected:"+op.Shape+":"+flagsName(op)+":algo="+meta.Algo+":pack="+meta.Pack,
					fmt.Sprintf("CONNECT with stored user and matching password rejected with 0x%02x (%s)", o.Code, shape), o)
			}
		} else if op.Res == "any" {
			rep.Count("dontcare_absent_password_vs_stored_empty:rejected", 1)
		}
	case "noconnack":
		rep.Count("noconnack", 1)
		if op.Res == "accept" {
			e.resultDiverged = true
			e.div("c19:"+where+":valid-credentials-no-connack:"+op.Shape, "CONNECT with valid credentials got no CONNACK ("+shape+"): "+o.Detail, o)
			return
		}
		switch {
		case !wellformed:
			rep.Count("noconnack:v3-password-flag-without-username-flag(allowed)", 1)
		case o.WExit:
			e.lostConnack(shape, o)
		case o.Closed:
			// (a broker that reads the password as a UTF-8 string drops passwords with a NUL byte this way)
			e.div("c19:connection-closed-without-connack:"+flagsName(op)+":user="+class(op.Ua)+":pass="+op.Pa,
				"well-formed CONNECT that must be rejected: connection closed without CONNACK ("+shape+"): "+o.Detail, o)
		default:
			e.div("c19:connect-unanswered-for-20s", "CONNECT neither answered nor closed ("+shape+")", o)
		}
	}
}

func (e *env) lostConnack(shape string, o outcome) {
	rep.Count("failing_connack_lost", 1)
	e.div("c19:failing-connack-lost",
		"rejected CONNECT got no CONNACK: the connection's writer exited without writing it ("+shape+"): "+o.Detail, o)
}

func trunc(s string) string {
	if len(s) > 40 {
		return s[:40] + fmt.Sprintf("...(%d bytes)", len(s))
	}
	return s
}

func (e *env) connect(op Op, check bool) error {
	pkt := connectPacket(op.Shape, e.cid(op.Cid), op.Uf, name(op.Ua), op.Pf, pw(op.Pa), op.Will)
	o, err := e.attempt(op.Ln, pkt, true)
	if err != nil {
		return err
	}
	if check {
		e.judge(op, o, "connect")
	} else if (op.Res == "accept") != (o.Kind == "accept") {
		return fmt.Errorf("connect on the path: expected %s, got %+v", op.Res, o)
	}
	return nil
}

func preauthPackets(kind string) []*mw.Packet {
	switch kind {
	case "subscribe":
		return []*mw.Packet{mw.Subscribe(1, mw.SubTopic{Filter: victimTopic, QoS: 1}, mw.SubTopic{Filter: "#", QoS: 0})}
	case "pubret":
		return []*mw.Packet{
			mw.Publish(evilRet, 0, true, 0, []byte("evil")),
			mw.Publish(victimRet, 0, true, 0, nil),
			mw.Publish(victimTopic, 1, false, 2, []byte("evil")),
			mw.Publish(victimRet, 1, true, 3, []byte("overwritten")),
		}
	case "unsubscribe":
		return []*mw.Packet{mw.Unsubscribe(1, victimTopic)}
	case "pingreq":
		return []*mw.Packet{mw.Pingreq()}
	case "auth":
		return []*mw.Packet{{Type: mw.AUTH, Code: 0x18, Props: &mw.Props{AuthMethod: mw.Str("SCRAM-SHA-1"), AuthData: []byte("x"), HasAuthData: true}}}
	case "disconnect":
		return []*mw.Packet{mw.Disconnect(0x04)}
	}
	return nil
}

func (e *env) preauth(op Op, check bool) error {
	ver := verByte(op.Ver)
	k, err := e.dial(op.Ln, ver)
	if err != nil {
		return err
	}
	cid := "own"
	if e.victim != nil {
		cid = "victim"
	}
	var pkts []*mw.Packet
	if op.Kind == "connect2" {
		pkts = []*mw.Packet{connectPacket(op.Ver, e.cid(cid), true, name(op.U), true, pw(op.P), false)}
	} else {
		pkts = preauthPackets(op.Kind)
	}
	bad := connectPacket(op.Ver, e.cid(cid), true, name("unk"), true, pw(meta.Passwords[0]), true)
	var answers []string
	accepted := false
	note := func(p *mw.Packet) {
		t := mw.TypeName(p.Type)
		if p.Type == mw.CONNACK {
			t = fmt.Sprintf("CONNACK(0x%02x)", p.Code)
			if p.Code == 0 {
				accepted = true
			}
		}
		answers = append(answers, t)
	}
	noteOutcome := func(o outcome) {
		switch o.Kind {
		case "accept":
			accepted = true
			answers = append(answers, "CONNACK(0x00)")
		case "reject":
			answers = append(answers, fmt.Sprintf("CONNACK(0x%02x)", o.Code))
		case "other":
			answers = append(answers, o.Detail)
		}
	}
	send := func(ps []*mw.Packet) {
		for _, p := range ps {
			p.Version = ver
			_ = k.c.Send(p)
		}
	}
	switch op.Phase {
	case "before":
		send(pkts)
		select { // the broker answers the first packet (if at all) and its writer exits
		case <-k.w.wexit:
		case <-time.After(patience):
			rep.Count("preauth:writer_alive_after_20s", 1)
		}
	case "burst":
		// no CONNECT at all: a PINGREQ and, in the same write, the packets (they are in the broker's hands before it can
		// close the connection for the first one)
		var raw []byte
		for _, p := range append([]*mw.Packet{mw.Pingreq()}, pkts...) {
			p.Version = ver
			b, err := mw.Encode(p)
			if err != nil {
				k.done()
				return machinery{"encode: " + err.Error()}
			}
			raw = append(raw, b...)
		}
		if err := k.c.SendRaw(raw); err != nil {
			k.done()
			return machinery{"send: " + err.Error()}
		}
		select {
		case <-k.w.wexit:
		case <-time.After(patience):
			rep.Count("preauth:writer_alive_after_20s", 1)
		}
	case "afterfail":
		if err := k.c.Send(bad); err != nil {
			k.done()
			return machinery{"send CONNECT: " + err.Error()}
		}
		o := k.awaitConnack()
		if o.Kind == "accept" {
			k.done()
			if check {
				e.div("c19:preauth:unknown-user-accepted", "CONNECT of an unknown user accepted", o)
			}
			return errors.New("unknown user accepted")
		}
		noteOutcome(o)
		send(pkts)
	case "pipelined":
		var raw []byte
		for _, p := range append([]*mw.Packet{bad}, pkts...) {
			p.Version = ver
			b, err := mw.Encode(p)
			if err != nil {
				k.done()
				return machinery{"encode: " + err.Error()}
			}
			raw = append(raw, b...)
		}
		if err := k.c.SendRaw(raw); err != nil {
			k.done()
			return machinery{"send: " + err.Error()}
		}
		noteOutcome(k.awaitConnack())
	}
	for { // drain whatever the broker still says
		p, err := k.c.Recv(15 * time.Millisecond)
		if err != nil {
			break
		}
		note(p)
	}
	if accepted {
		_ = k.c.Send(mw.Disconnect(0))
	}
	if !k.done() {
		rep.Count("broker_did_not_finish_connection_within_20s", 1)
		rep.Count("broker_did_not_finish_connection_within_20s:preauth:"+op.Kind+":"+op.Phase+":"+op.Ver, 1)
	}
	for _, a := range answers {
		rep.Count("preauth_answer:"+op.Phase+":"+a, 1)
	}
	if check && accepted {
		e.div("c19:preauth:"+op.Kind+":"+op.Phase+":accepted-on-a-connection-that-failed-or-never-authenticated",
			fmt.Sprintf("a CONNACK(0) was sent on an unauthenticated connection; answers=%v", answers), answers)
	}
	return nil
}

// ---------------------------------------------------------------------------------------------- projection

type snapshot struct {
	Sessions []string `json:"sessions"`
	Clients  []string `json:"clients"`
	Subs     []string `json:"subs"`
	Retained []string `json:"retained"`
}

func (s snapshot) String() string {
	b, _ := json.Marshal(s)
	return string(b)
}

func (e *env) snap() snapshot {
	s := snapshot{Sessions: []string{}, Clients: []string{}, Subs: []string{}, Retained: []string{}}
	srv := e.b.Srv
	_ = srv.ClientService().IterateSession(func(x *gmqtt.Session) bool {
		s.Sessions = append(s.Sessions, x.ClientID)
		return true
	})
	srv.ClientService().IterateClient(func(c server.Client) bool {
		s.Clients = append(s.Clients, c.ClientOptions().ClientID)
		return true
	})
	srv.SubscriptionService().Iterate(func(cid string, sub *gmqtt.Subscription) bool {
		s.Subs = append(s.Subs, cid+"|"+sub.GetFullTopicName())
		return true
	}, subscription.IterationOptions{Type: subscription.TypeAll})
	srv.RetainedService().Iterate(func(m *gmqtt.Message) bool {
		s.Retained = append(s.Retained, m.Topic+"="+string(m.Payload))
		return true
	})
	sort.Strings(s.Sessions)
	sort.Strings(s.Clients)
	sort.Strings(s.Subs)
	sort.Strings(s.Retained)
	return s
}

func expectedSnap(tok []string) snapshot {
	s := snapshot{Sessions: []string{}, Clients: []string{}, Subs: []string{}, Retained: []string{}}
	for _, t := range tok {
		switch t {
		case "sess":
			s.Sessions = append(s.Sessions, victimID)
			s.Clients = append(s.Clients, victimID)
		case "sub":
			s.Subs = append(s.Subs, victimID+"|"+victimTopic)
		case "ret":
			s.Retained = append(s.Retained, victimRet+"="+victimRetPl)
		}
	}
	return s
}

func has(tok []string, t string) bool {
	for _, x := range tok {
		if x == t {
			return true
		}
	}
	return false
}

// checkState compares the service snapshots and the victim with the abstract tokens.
func (e *env) checkState(t *Trans) {
	want := expectedSnap(t.Tok).String()
	got := e.snap().String()
	// every connection of the operation has been finished by the broker (hook `closed`), but session removal of an
	// accepted attempt is asynchronous: poll before declaring a difference
	for wait := 200 * time.Microsecond; got != want && wait < 8*time.Second; wait *= 2 {
		time.Sleep(wait)
		got = e.snap().String()
		rep.Count("snapshot_polls", 1)
	}
	if got != want {
		sig := "c19:state-changed:" + t.Op.Op
		if t.Op.Op == "preauth" {
			sig += ":" + t.Op.Kind + ":" + t.Op.Phase
		} else if t.Op.Op == "connect" {
			sig += ":" + t.Op.Res + ":cid=" + t.Op.Cid
		}
		e.div(sig, "broker state after the operation differs from the specification: got "+got+" want "+want, nil)
	}
	if has(t.Tok, "sess") {
		if e.victim == nil {
			return // path could not build it; reported elsewhere
		}
		_ = e.victim.Send(mw.Pingreq())
		p, err := e.victim.Recv(patience)
		if err != nil {
			e.div("c19:victim-connection-lost:"+t.Op.Op+":"+t.Op.Kind, "the authenticated client's connection broke: "+err.Error(), nil)
		} else if p.Type != mw.PINGRESP {
			e.div("c19:victim-received-packet:"+t.Op.Op+":"+t.Op.Kind, "the authenticated client received "+mw.TypeName(p.Type)+" topic="+p.Topic+" payload="+string(p.Payload), nil)
		}
	} else if e.victim != nil {
		e.victim.Close()
		e.victim = nil
	}
}

func accMap(a []UP) map[string]string {
	m := map[string]string{}
	for _, x := range a {
		m[x.U] = x.P
	}
	return m
}

// checkAPI compares the account API's view with the abstract accounts.
func (e *env) checkAPI(t *Trans) {
	acc := accMap(t.Acc)
	resp, err := e.a.List(context.Background(), &auth.ListAccountsRequest{PageSize: 100, Page: 1})
	if err != nil {
		e.div("c19:api:list-failed", "List: "+err.Error(), nil)
		return
	}
	got := []string{}
	for _, a := range resp.Accounts {
		got = append(got, a.Username)
	}
	want := []string{}
	for u := range acc {
		want = append(want, name(u))
	}
	sort.Strings(got)
	sort.Strings(want)
	if e.afterRestart && (strings.Join(got, "\x00") != strings.Join(want, "\x00")) {
		if len(got) < len(want) {
			e.div("c19:restarted-broker-lost-account-state:pwfile="+meta.Mode+":after-restart",
				fmt.Sprintf("after Restart (%s path) List returns %d accounts, the specification's accounts are %v", meta.Mode, len(got), e.acc), nil)
		} else {
			e.div("c19:restarted-broker-accepts-account-not-in-saved-state:pwfile="+meta.Mode+":after-restart",
				fmt.Sprintf("after Restart (%s path) List returns %d accounts, the specification's accounts are %v", meta.Mode, len(got), e.acc), nil)
		}
		return
	}
	if strings.Join(got, "\x00") != strings.Join(want, "\x00") || int(resp.TotalCount) != len(want) {
		e.div("c19:api:list-differs:"+t.Op.Op, fmt.Sprintf("List returns %d accounts (total_count %d), specification has %d", len(got), resp.TotalCount, len(want)), nil)
	}
	for _, u := range meta.Users {
		_, err := e.a.Get(context.Background(), &auth.GetAccountRequest{Username: name(u)})
		_, stored := acc[u]
		if stored != (err == nil) {
			e.div("c19:api:get-differs:"+t.Op.Op, fmt.Sprintf("Get(%s): stored=%v err=%v", u, stored, err), nil)
		}
	}
}

// probes read the accounts back through the wire.  full: one CONNECT per (storable user, storable password), accepted
// iff that is the account's password (after update / delete / restart and after the shadow restart).  Otherwise one
// CONNECT per storable user: its stored password (accept) or, when it has no account, the first password (reject).
func (e *env) probes(t *Trans, accounts []UP, where string, full bool) {
	acc := accMap(accounts)
	h := fnv.New32a()
	h.Write(e.line)
	rot := int(h.Sum32()%3) + int(meta.Seed)
	shapes := []string{"v311", "v5", "v31"}
	i := 0
	for _, u := range meta.Users {
		for j, p := range meta.Passwords {
			sp, stored := acc[u]
			if !full && !((stored && sp == p) || (!stored && j == 0)) {
				continue
			}
			i++
			op := Op{Op: "connect", Shape: shapes[(rot+i)%3], Ln: "tcp", Uf: true, Ua: u, Pf: true, Pa: p, Cid: "own", Res: "reject"}
			if stored && sp == p {
				op.Res = "accept"
			}
			pkt := connectPacket(op.Shape, e.cid("own"), true, name(u), true, pw(p), false)
			o, err := e.attempt("tcp", pkt, false)
			if err != nil {
				e.div("machinery:probe", err.Error(), nil)
				return
			}
			rep.Count("probes", 1)
			if where == "live" {
				e.judge(op, o, "probe-after-"+t.Op.Op)
				continue
			}
			// after the shadow restart: the file projection
			rep.Count("connects", 1)
			if o.Kind == "noconnack" && o.WExit && op.Res == "accept" {
				rep.Count("reject_owed_connack", 1)
				e.lostConnack("probe after restart", o)
				o.Kind, o.Code = "reject", 0xff
			}
			switch {
			case o.Kind == "accept" && op.Res == "reject":
				e.div("c19:restarted-broker-accepts-account-not-in-saved-state:pwfile="+meta.Mode+":after-"+t.Op.Op,
					fmt.Sprintf("after Stop + start on the same password file (%s path) user %s / password %s is accepted, the specification's file has %v", meta.Mode, u, p, accounts), o)
			case o.Kind == "reject" && op.Res == "accept":
				e.div("c19:restarted-broker-lost-account-state:pwfile="+meta.Mode+":after-"+t.Op.Op,
					fmt.Sprintf("after Stop + start on the same password file (%s path) user %s / password %s is rejected (0x%02x), the specification's file has %v", meta.Mode, u, p, o.Code, accounts), o)
			case o.Kind == "noconnack" && op.Res == "reject" && o.WExit:
				rep.Count("reject_owed_connack", 1)
				e.lostConnack("probe after restart", o)
			case o.Kind == "noconnack" || o.Kind == "other":
				e.div("c19:restart-probe:unexpected:"+o.Kind, fmt.Sprintf("probe %s/%s after restart: %+v", u, p, o), o)
			default:
				if op.Res == "reject" {
					rep.Count("reject_owed_connack", 1)
				}
			}
		}
	}
}

// ---------------------------------------------------------------------------------------------- one transition

func usesWS(t *Trans) bool {
	if t.Op.Ln == "ws" {
		return true
	}
	for _, o := range t.Pre {
		if o.Ln == "ws" {
			return true
		}
	}
	return false
}

func run(js []byte) (retry bool) {
	var t Trans
	if err := json.Unmarshal(js, &t); err != nil {
		rep.Div("machinery:bad-line", err.Error(), js, nil)
		return false
	}
	e, err := newEnv(js, usesWS(&t))
	if err != nil {
		rep.Div("machinery:scratch", err.Error(), js, nil)
		return false
	}
	defer e.cleanup()
	e.acc = t.Acc
	e.afterRestart = t.Op.Op == "restart"
	defer func() {
		if r := recover(); r != nil {
			rep.Div("machinery:panic", fmt.Sprint(r), js, nil)
		}
	}()
	tp := time.Now()
	phase := func(n string) {
		if timing {
			rep.Count("us:"+n, int64(time.Since(tp)/time.Microsecond))
		}
		tp = time.Now()
	}
	defer func() { phase("cleanup") }()
	if err := e.start(); err != nil {
		return true
	}
	phase("start")
	for i, op := range t.Pre {
		if err := e.apply(op, false); err != nil {
			if _, m := err.(machinery); m {
				return true
			}
			// the path itself diverges: the transition that first shows it is reported on its own line
			rep.Count("path_not_followable", 1)
			rep.Count("path_not_followable:"+op.Op, 1)
			_ = i
			return false
		}
	}
	if err := e.apply(t.Op, true); err != nil {
		if _, m := err.(machinery); m {
			return true
		}
		if !e.failed {
			e.div("c19:operation-failed:"+t.Op.Op, err.Error(), nil)
		}
		atomic.AddInt64(&rep.N, 1)
		return false
	}
	if e.b == nil {
		return true
	}
	phase("pre+op")
	if e.resultDiverged {
		rep.Count("state_projection_skipped_after_result_divergence", 1)
		if e.victim != nil && !has(t.Tok, "sess") {
			e.victim.Close()
			e.victim = nil
		}
	} else {
		e.checkState(&t)
	}
	e.checkAPI(&t)
	phase("state+api")
	accountOp := t.Op.Op == "update" || t.Op.Op == "delete" || t.Op.Op == "restart"
	e.probes(&t, t.Acc, "live", accountOp)
	phase("probes")
	switch {
	case accountOp:
		if err := e.restart(); err != nil {
			if _, m := err.(machinery); m {
				return true
			}
			e.div("c19:restart-failed:pwfile="+meta.Mode, "broker does not start on the password file it saved: "+err.Error(), nil)
		} else {
			rep.Count("shadow_restarts", 1)
			e.probes(&t, t.File, "file", true)
		}
	}
	phase("shadow")
	atomic.AddInt64(&rep.N, 1)
	if len(t.Tok) > 0 || len(t.Acc) > 0 {
		atomic.AddInt64(&rep.NonTriv, 1)
	}
	rep.Count("op:"+t.Op.Op, 1)
	if !e.failed {
		rep.Sample(js, 2)
	}
	return false
}

func main() {
	metaPath := flag.String("meta", "", "pack concretisation (JSON)")
	workers := flag.Int("workers", 0, "parallel transitions")
	raw := flag.Bool("raw", false, "stdin holds plain JSON lines (replay) instead of TLC output")
	gcp := flag.Int("gcpercent", 200, "GC percent (every client allocates a 64 KiB read buffer; a small heap keeps it cache-warm)")
	flag.Parse()
	debug.SetGCPercent(*gcp)
	b, err := os.ReadFile(*metaPath)
	if err != nil {
		fmt.Fprintln(os.Stderr, "meta:", err)
		os.Exit(2)
	}
	if err := json.Unmarshal(b, &meta); err != nil {
		fmt.Fprintln(os.Stderr, "meta:", err)
		os.Exit(2)
	}
	cwdDir = filepath.Join(meta.Root, "cwd")
	for _, d := range []string{cwdDir, filepath.Join(meta.Root, "conf"), filepath.Join(meta.Root, "abs")} {
		if err := os.MkdirAll(d, 0o777); err != nil {
			fmt.Fprintln(os.Stderr, "scratch:", err)
			os.Exit(2)
		}
	}
	// the plugin writes its temporary file into the working directory and renames relative paths against it
	if err := os.Chdir(cwdDir); err != nil {
		fmt.Fprintln(os.Stderr, "chdir:", err)
		os.Exit(2)
	}
	if err := installHooks(); err != nil {
		fmt.Fprintln(os.Stderr, "hooks:", err)
		os.Exit(2)
	}
	if pf := os.Getenv("AUTHGATE_CPUPROFILE"); pf != "" {
		f, _ := os.Create(pf)
		_ = pprof.StartCPUProfile(f)
		defer pprof.StopCPUProfile()
	}
	t0 := time.Now()
	var machineryFailures int64
	err = tc.Each(os.Stdin, *workers, *raw, nil, func(js []byte) {
		for try := 0; try < 3; try++ {
			if !run(js) {
				return
			}
			rep.Count("machinery_retries", 1)
		}
		atomic.AddInt64(&machineryFailures, 1)
		rep.Div("machinery:transition-not-executable", "three attempts failed for machinery reasons", js, nil)
	})
	if err != nil {
		fmt.Fprintln(os.Stderr, "input:", err)
		rep.Summary(map[string]interface{}{"error": err.Error()})
		os.Exit(2)
	}
	left, _ := os.ReadDir(cwdDir)
	stray := []string{}
	for _, f := range left {
		stray = append(stray, f.Name())
	}
	rep.Summary(map[string]interface{}{"pack": meta.Pack, "algo": meta.Algo, "mode": meta.Mode, "wall_s": time.Since(t0).Seconds(),
		"machinery_failures": machineryFailures, "stray_files_in_cwd": stray})
}
