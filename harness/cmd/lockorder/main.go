// lockorder reads server/stats.go with go/ast (no type checking, no build) and reports which calls the statistics manager
// makes while it holds clientMu: the constants TouchReadsStore / ReadHoldsMu of spec/LockOrder.tla (C15).
//
//	touch_reads_store: getClientStats calls s.subStatsReader.<x> and some function calls getClientStats between
//	                   s.clientMu.Lock() and the matching Unlock (deferred = end of the function)
//	read_holds_mu:     GetClientStats calls s.subStatsReader.<x> between s.clientMu.Lock() and the matching Unlock
package main

import (
	"encoding/json"
	"fmt"
	"go/ast"
	"go/parser"
	"go/token"
	"os"
	"strings"
)

type fn struct {
	Name       string   `json:"name"`
	Locks      bool     `json:"locks_clientmu"`
	UnderMu    []string `json:"calls_under_clientmu"`
	StoreCalls []string `json:"store_calls"`
}

func sel(e ast.Expr) string {
	switch x := e.(type) {
	case *ast.Ident:
		return x.Name
	case *ast.SelectorExpr:
		return sel(x.X) + "." + x.Sel.Name
	case *ast.CallExpr:
		return sel(x.Fun) + "()"
	}
	return "?"
}

// pollInflightsOrder: in server/client.go, does pollInflights take the packet-id limiter's lock before it reads the queue?
func pollInflightsOrder(path string) (known, limiterFirst bool) {
	fset := token.NewFileSet()
	af, err := parser.ParseFile(fset, path, nil, parser.SkipObjectResolution)
	if err != nil {
		fmt.Fprintln(os.Stderr, "parse:", err)
		os.Exit(2)
	}
	for _, d := range af.Decls {
		fd, ok := d.(*ast.FuncDecl)
		if !ok || fd.Body == nil || fd.Name.Name != "pollInflights" {
			continue
		}
		lock, read := token.NoPos, token.NoPos
		ast.Inspect(fd.Body, func(n ast.Node) bool {
			if c, ok := n.(*ast.CallExpr); ok {
				name := sel(c.Fun)
				if strings.HasSuffix(name, "pl.lock") && lock == token.NoPos {
					lock = c.Pos()
				}
				if strings.HasSuffix(name, "queueStore.ReadInflight") && read == token.NoPos {
					read = c.Pos()
				}
			}
			return true
		})
		if lock == token.NoPos || read == token.NoPos {
			return false, false
		}
		return true, lock < read
	}
	return false, false
}

func main() {
	if len(os.Args) != 2 && len(os.Args) != 3 {
		fmt.Fprintln(os.Stderr, "usage: lockorder server/stats.go [server/client.go]")
		os.Exit(2)
	}
	fset := token.NewFileSet()
	af, err := parser.ParseFile(fset, os.Args[1], nil, parser.SkipObjectResolution)
	if err != nil {
		fmt.Fprintln(os.Stderr, "parse:", err)
		os.Exit(2)
	}
	var fns []fn
	byName := map[string]*fn{}
	for _, d := range af.Decls {
		fd, ok := d.(*ast.FuncDecl)
		if !ok || fd.Body == nil || fd.Recv == nil {
			continue
		}
		f := fn{Name: fd.Name.Name}
		lock, unlock := token.NoPos, fd.Body.End()
		deferred := map[*ast.CallExpr]bool{}
		ast.Inspect(fd.Body, func(n ast.Node) bool {
			if ds, ok := n.(*ast.DeferStmt); ok {
				deferred[ds.Call] = true
			}
			return true
		})
		type call struct {
			name string
			pos  token.Pos
		}
		var calls []call
		ast.Inspect(fd.Body, func(n ast.Node) bool {
			c, ok := n.(*ast.CallExpr)
			if !ok {
				return true
			}
			name := sel(c.Fun)
			switch {
			case strings.HasSuffix(name, "clientMu.Lock"):
				if lock == token.NoPos {
					lock = c.Pos()
				}
				f.Locks = true
			case strings.HasSuffix(name, "clientMu.Unlock"):
				if !deferred[c] && c.Pos() < unlock && lock != token.NoPos && c.Pos() > lock {
					unlock = c.Pos()
				}
			default:
				calls = append(calls, call{name, c.Pos()})
			}
			return true
		})
		for _, c := range calls {
			if strings.Contains(c.name, "subStatsReader.") {
				f.StoreCalls = append(f.StoreCalls, c.name)
			}
			if f.Locks && c.pos > lock && c.pos < unlock {
				f.UnderMu = append(f.UnderMu, c.name)
			}
		}
		fns = append(fns, f)
	}
	for i := range fns {
		byName[fns[i].Name] = &fns[i]
	}
	out := map[string]interface{}{"functions": fns}
	g := byName["getClientStats"]
	touch := false
	if g != nil && len(g.StoreCalls) > 0 {
		for _, f := range fns {
			for _, c := range f.UnderMu {
				if strings.HasSuffix(c, ".getClientStats") {
					touch = true
				}
			}
		}
	}
	read := false
	if r := byName["GetClientStats"]; r != nil {
		for _, c := range r.UnderMu {
			if strings.Contains(c, "subStatsReader.") {
				read = true
			}
		}
	}
	out["touch_reads_store"] = touch
	out["read_holds_mu"] = read
	out["known_shape"] = g != nil && byName["GetClientStats"] != nil && byName["packetSent"] != nil && byName["addQueueLen"] != nil
	if len(os.Args) == 3 {
		k, first := pollInflightsOrder(os.Args[2])
		out["poll_inflights_known"] = k
		out["poll_limiter_first"] = first
	}
	b, _ := json.MarshalIndent(out, "", " ")
	os.Stdout.Write(b)
	os.Stdout.WriteString("\n")
}
