// fedgrpc puts REAL gRPC between two real Federation objects: node A emits subscribe / unsubscribe / retained-message
// events through the plugin's hook wrappers, its per-peer connect loop (serveEventStream: dial, Hello, serve, back off,
// reconnect) talks to node B's gRPC server through a TCP proxy that cuts the connection after a scripted number of bytes in
// either direction.  The trace (emit / apply / cut / quiet with B's view of A and A's local set) is validated by TLC
// against spec/FedDelivery.tla.  C16: "no matter where and how often the stream breaks" at byte grain.
package main

import (
	"context"
	"encoding/json"
	"flag"
	"fmt"
	"io"
	"net"
	"os"
	"sort"
	"strconv"
	"strings"
	"sync"
	"math/rand"
	"runtime"
	"time"

	"github.com/hashicorp/serf/serf"
	"google.golang.org/grpc"

	"github.com/DrmagicE/gmqtt"
	"github.com/DrmagicE/gmqtt/persistence/subscription/mem"
	"github.com/DrmagicE/gmqtt/pkg/packets"
	fed "github.com/DrmagicE/gmqtt/plugin/federation"
	"github.com/DrmagicE/gmqtt/retained/trie"
	"github.com/DrmagicE/gmqtt/server"
)

type Op struct {
	Op    string `json:"op"` // sub | unsub | msg | cut | sleep
	C     string `json:"c"`
	T     string `json:"t"`
	N     int    `json:"n"`
	Dir   string `json:"dir"`   // cut: c2s | s2c
	After int    `json:"after"` // cut: bytes that still pass in that direction
	Ms    int    `json:"ms"`
	Us    int    `json:"us"`   // subn / unsubn: microseconds between two of them
	Seed  int64  `json:"seed"` // unsubn: order (0 = ascending)
}

type Scenario struct {
	ID string `json:"id"`
	// Pre: sub / subn operations before the nodes know each other (the first handshake carries them as full state)
	Pre []Op `json:"pre,omitempty"`
	// Race: operations run from a second goroutine that starts together with the join (against the first handshake and its
	// full-state resynchronisation), Ms apart in microseconds (field us)
	Race []Op `json:"race,omitempty"`
	Ops  []Op `json:"ops"`
}

type Event map[string]interface{}

type recorder struct {
	mu sync.Mutex
	t0 time.Time
	ev []Event
}

func (r *recorder) log(e Event) {
	r.mu.Lock()
	e["ms"] = int(time.Since(r.t0) / time.Millisecond)
	r.ev = append(r.ev, e)
	r.mu.Unlock()
}

type fakeSerf struct{}

func (fakeSerf) Join([]string, bool) (int, error) { return 0, nil }
func (fakeSerf) RemoveFailedNode(string) error    { return nil }
func (fakeSerf) Leave() error                     { return nil }
func (fakeSerf) Members() []serf.Member           { return nil }
func (fakeSerf) Shutdown() error                  { return nil }

type fakeMQTTClient struct{ opts server.ClientOptions }

func (c *fakeMQTTClient) ClientOptions() *server.ClientOptions { return &c.opts }
func (c *fakeMQTTClient) SessionInfo() *gmqtt.Session          { return nil }
func (c *fakeMQTTClient) Version() packets.Version             { return packets.Version5 }
func (c *fakeMQTTClient) ConnectedAt() time.Time               { return time.Time{} }
func (c *fakeMQTTClient) Connection() net.Conn                 { return nil }
func (c *fakeMQTTClient) Close()                               {}
func (c *fakeMQTTClient) Disconnect(*packets.Disconnect)       {}

// applied messages on B, in the order B's federation publishes them
type recPublisher struct {
	rec *recorder
	mu  sync.Mutex
	ns  []int
}

func (p *recPublisher) Publish(m *gmqtt.Message) {
	n, _ := strconv.Atoi(strings.TrimPrefix(string(m.Payload), "p"))
	p.mu.Lock()
	p.ns = append(p.ns, n)
	p.mu.Unlock()
	p.rec.log(Event{"e": "apply", "n": n, "topic": m.Topic})
}

type nopPublisher struct{}

func (nopPublisher) Publish(*gmqtt.Message) {}

// ---------------------------------------------------------------- cutting proxy

type proxy struct {
	ln     net.Listener
	target string
	rec    *recorder
	mu     sync.Mutex
	arm    *Op // pending cut
	nconn  int
	cuts   int
}

func (p *proxy) serve() {
	for {
		c, err := p.ln.Accept()
		if err != nil {
			return
		}
		go p.handle(c)
	}
}

func (p *proxy) handle(c net.Conn) {
	s, err := net.DialTimeout("tcp", p.target, 2*time.Second)
	if err != nil {
		c.Close()
		return
	}
	p.mu.Lock()
	p.nconn++
	id := p.nconn
	p.mu.Unlock()
	var once sync.Once
	closeBoth := func() { once.Do(func() { c.Close(); s.Close() }) }
	pump := func(dst, src net.Conn, dir string) {
		buf := make([]byte, 4096)
		for {
			n, err := src.Read(buf)
			if n > 0 {
				p.mu.Lock()
				cut := -1
				if p.arm != nil && p.arm.Dir == dir {
					if p.arm.After < n {
						cut = p.arm.After
						p.arm = nil
						p.cuts++
					} else {
						p.arm.After -= n
					}
				}
				p.mu.Unlock()
				if cut >= 0 {
					if cut > 0 {
						dst.Write(buf[:cut])
					}
					p.rec.log(Event{"e": "cut", "dir": dir, "conn": id, "passed": cut})
					closeBoth()
					return
				}
				if _, werr := dst.Write(buf[:n]); werr != nil {
					closeBoth()
					return
				}
			}
			if err != nil {
				closeBoth()
				return
			}
		}
	}
	go pump(s, c, "c2s")
	pump(c, s, "s2c")
}

// ---------------------------------------------------------------- one scenario

func sorted(s []string) []string { sort.Strings(s); return s }

func run(sc *Scenario) (evs []Event, fatal string) {
	rec := &recorder{t0: time.Now()}
	rec.log(Event{"e": "reset", "scn": sc.ID})
	aSubs := mem.NewStore()
	bPub := &recPublisher{rec: rec}
	A := fed.VerifNewServing(fed.VerifOptions{NodeName: "A", Serf: fakeSerf{}, LocalSubs: aSubs, Retained: trie.NewStore(), Publisher: nopPublisher{}})
	B := fed.VerifNewServing(fed.VerifOptions{NodeName: "B", Serf: fakeSerf{}, LocalSubs: mem.NewStore(), Retained: trie.NewStore(), Publisher: bPub})
	listen := func(f *fed.Federation) (string, *grpc.Server, error) {
		ln, err := net.Listen("tcp", "127.0.0.1:0")
		for i := 0; err != nil && i < 200; i++ { // ephemeral ports can run out for a moment
			time.Sleep(50 * time.Millisecond)
			ln, err = net.Listen("tcp", "127.0.0.1:0")
		}
		if err != nil {
			return "", nil, err
		}
		g := grpc.NewServer()
		fed.RegisterFederationServer(g, f)
		go g.Serve(ln)
		return ln.Addr().String(), g, nil
	}
	aAddr, ga, err := listen(A)
	if err != nil {
		return nil, "listen: " + err.Error()
	}
	defer ga.Stop()
	bAddr, gb, err := listen(B)
	if err != nil {
		return nil, "listen: " + err.Error()
	}
	defer gb.Stop()
	pln, err := net.Listen("tcp", "127.0.0.1:0")
	if err != nil {
		return nil, "listen: " + err.Error()
	}
	px := &proxy{ln: pln, target: bAddr, rec: rec}
	go px.serve()
	defer pln.Close()
	defer A.VerifStopPeers()
	defer B.VerifStopPeers()
	ctx := context.Background()
	subHook := A.OnSubscribedWrapper(func(context.Context, server.Client, *gmqtt.Subscription) {})
	unsubHook := A.OnUnsubscribedWrapper(func(context.Context, server.Client, string) {})
	doSub := func(c, t string) {
		rec.log(Event{"e": "emit", "kind": "sub", "c": c, "t": t})
		sub := &gmqtt.Subscription{TopicFilter: t}
		if strings.HasPrefix(t, "$share/") {
			if p := strings.SplitN(t, "/", 3); len(p) == 3 {
				sub = &gmqtt.Subscription{ShareName: p[1], TopicFilter: p[2]}
			}
		}
		aSubs.Subscribe(c, sub)
		subHook(ctx, &fakeMQTTClient{opts: server.ClientOptions{ClientID: c}}, sub)
	}
	doUnsub := func(c, t string) {
		rec.log(Event{"e": "emit", "kind": "unsub", "c": c, "t": t})
		aSubs.Unsubscribe(c, t)
		unsubHook(ctx, &fakeMQTTClient{opts: server.ClientOptions{ClientID: c}}, t)
	}
	// subn / unsubn: n topics <t>/000 ... (unsubn in the order given by seed), us microseconds apart
	many := func(op Op) {
		order := make([]int, op.N)
		for i := range order {
			order[i] = i
		}
		if op.Seed != 0 {
			rand.New(rand.NewSource(op.Seed)).Shuffle(len(order), func(i, j int) { order[i], order[j] = order[j], order[i] })
		}
		for _, i := range order {
			t := fmt.Sprintf("%s/%03d", op.T, i)
			if op.Op == "subn" {
				doSub(op.C, t)
			} else {
				doUnsub(op.C, t)
			}
			if op.Us > 0 {
				for t0 := time.Now(); time.Since(t0) < time.Duration(op.Us)*time.Microsecond; {
					runtime.Gosched()
				}
			}
		}
	}
	for _, op := range sc.Pre {
		switch op.Op {
		case "sub":
			doSub(op.C, op.T)
		case "subn":
			many(op)
		default:
			return rec.ev, "pre: unknown op " + op.Op
		}
	}
	raceDone := make(chan struct{})
	go func() {
		defer close(raceDone)
		for _, op := range sc.Race {
			switch op.Op {
			case "sub":
				doSub(op.C, op.T)
			case "unsub":
				doUnsub(op.C, op.T)
			case "subn", "unsubn":
				many(op)
			case "sleep":
				time.Sleep(time.Duration(op.Ms) * time.Millisecond)
			}
		}
	}()
	// B knows A (its own stream towards A goes to A's server directly), A reaches B through the proxy
	B.VerifNodeJoinAddr("A", aAddr)
	A.VerifNodeJoinAddr("B", px.ln.Addr().String())
	peer := A.VerifPeer("B")
	// nothing is emitted before the first stream stands: the first handshake is a clean start that replaces the queue by
	// the full state
	for t0 := time.Now(); peer.State() != 2; {
		if time.Since(t0) > 10*time.Second {
			return rec.ev, "the first event stream did not come up within 10 s"
		}
		time.Sleep(5 * time.Millisecond)
	}
	select {
	case <-raceDone:
	case <-time.After(30 * time.Second):
		return rec.ev, "the operations racing with the join did not finish within 30 s"
	}
	msgHook := A.OnMsgArrivedWrapper(func(context.Context, server.Client, *server.MsgArrivedRequest) error { return nil })
	var emitted []int
	for _, op := range sc.Ops {
		switch op.Op {
		case "sub":
			doSub(op.C, op.T)
		case "unsub":
			doUnsub(op.C, op.T)
		case "subn", "unsubn":
			many(op)
		case "msg":
			rec.log(Event{"e": "emit", "kind": "msg", "n": op.N})
			emitted = append(emitted, op.N)
			m := &gmqtt.Message{Topic: fmt.Sprintf("r/%d", op.N%3), Payload: []byte(fmt.Sprintf("p%d", op.N)), Retained: true, QoS: 1}
			_ = msgHook(ctx, &fakeMQTTClient{opts: server.ClientOptions{ClientID: "pub"}}, &server.MsgArrivedRequest{Message: m})
		case "cut":
			o := op
			px.mu.Lock()
			px.arm = &o
			px.mu.Unlock()
			rec.log(Event{"e": "arm", "dir": op.Dir, "after": op.After})
		case "sleep":
			time.Sleep(time.Duration(op.Ms) * time.Millisecond)
		default:
			return rec.ev, "unknown op " + op.Op
		}
	}
	// quiescence: no cut armed any more (an armed cut that never fires stays armed: disarm), then wait until B has caught up
	for t0 := time.Now(); time.Since(t0) < 500*time.Millisecond; time.Sleep(10 * time.Millisecond) {
		px.mu.Lock()
		armed := px.arm != nil
		px.mu.Unlock()
		if !armed {
			break
		}
	}
	px.mu.Lock()
	px.arm = nil
	px.mu.Unlock()
	local := func() []string {
		var l []string
		for k := range A.VerifLocalTopics() {
			l = append(l, k)
		}
		return sorted(l)
	}
	view := func() []string { return sorted(append([]string{}, B.VerifFedSubs()["A"]...)) }
	same := func(a, b []string) bool {
		if len(a) != len(b) {
			return false
		}
		for i := range a {
			if a[i] != b[i] {
				return false
			}
		}
		return true
	}
	deadline := time.Now().Add(20 * time.Second)
	stable := 0
	for time.Now().Before(deadline) {
		bPub.mu.Lock()
		na := len(bPub.ns)
		bPub.mu.Unlock()
		if na >= len(emitted) && same(view(), local()) {
			stable++
			if stable >= 6 {
				break
			}
		} else {
			stable = 0
		}
		time.Sleep(50 * time.Millisecond)
	}
	bPub.mu.Lock()
	applied := append([]int{}, bPub.ns...)
	bPub.mu.Unlock()
	v, l := view(), local()
	if v == nil {
		v = []string{}
	}
	if l == nil {
		l = []string{}
	}
	rec.log(Event{"e": "quiet", "view": v, "local": l, "napplied": len(applied), "nemitted": len(emitted), "queued": len(peer.Queue().Events),
		"conns": px.nconn, "cuts": px.cuts})
	rec.mu.Lock()
	defer rec.mu.Unlock()
	return append([]Event{}, rec.ev...), ""
}

func main() {
	in := flag.String("scenarios", "", "ndjson file with scenarios")
	out := flag.String("out", "", "trace output (ndjson)")
	par := flag.Int("par", 16, "scenarios in parallel")
	flag.Parse()
	b, err := os.ReadFile(*in)
	if err != nil {
		fmt.Fprintln(os.Stderr, err)
		os.Exit(2)
	}
	var scs []*Scenario
	for _, line := range strings.Split(string(b), "\n") {
		if strings.TrimSpace(line) == "" {
			continue
		}
		s := &Scenario{}
		if err := json.Unmarshal([]byte(line), s); err != nil {
			fmt.Fprintln(os.Stderr, "bad scenario:", err)
			os.Exit(2)
		}
		scs = append(scs, s)
	}
	results := make([][]Event, len(scs))
	fatals := make([]string, len(scs))
	sem := make(chan struct{}, *par)
	var wg sync.WaitGroup
	for i := range scs {
		wg.Add(1)
		sem <- struct{}{}
		go func(i int) {
			defer wg.Done()
			defer func() { <-sem }()
			results[i], fatals[i] = run(scs[i])
		}(i)
	}
	wg.Wait()
	f, err := os.Create(*out)
	if err != nil {
		fmt.Fprintln(os.Stderr, err)
		os.Exit(2)
	}
	w := io.Writer(f)
	type idx struct {
		ID    string `json:"id"`
		From  int    `json:"from"`
		To    int    `json:"to"`
		Fatal string `json:"fatal,omitempty"`
	}
	var index []idx
	line := 0
	for i, evs := range results {
		from := line + 1
		for _, e := range evs {
			b, _ := json.Marshal(e)
			w.Write(append(b, '\n'))
			line++
		}
		index = append(index, idx{ID: scs[i].ID, From: from, To: line, Fatal: fatals[i]})
	}
	f.Close()
	ib, _ := json.Marshal(map[string]interface{}{"index": index, "events": line})
	fmt.Println(string(ib))
}
