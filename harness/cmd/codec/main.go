// codec feeds the vectors TLC generates from spec/Codec.tla (one JSON line per vector) to the real gmqtt packet
// decoder / encoder and compares (C06):
//
//	valid vector  (p, bytes, alts): ReadPacket accepts, consumes exactly len(bytes) (guard bytes untouched), every field
//	              equals p, TotalBytes = len(bytes), re-encoding the decoded packet and encoding a packet built from p
//	              both give a member of {bytes} u alts (all encodings of p the specification allows), TotalBytes after
//	              Pack = encoded length, Message.TotalBytes = length of MessageToPublish(MessageFromPublish(pkt)).
//	fault vector  (bytes, rule): ReadPacket returns an error.
//	every vector: no panic, returns within the watchdog, heap allocated during ReadPacket <= 32*len(input)+65536 bytes.
//
// The oracle is the specification: expected fields / byte strings / verdicts all come from TLC's output.
package main

import (
	"bufio"
	"bytes"
	"encoding/hex"
	"encoding/json"
	"flag"
	"fmt"
	"hash/fnv"
	"os"
	"runtime"
	"runtime/debug"
	"runtime/metrics"
	"sort"
	"strings"
	"sync"
	"sync/atomic"
	"time"
	"unicode/utf8"

	gmqtt "github.com/DrmagicE/gmqtt"
	"github.com/DrmagicE/gmqtt/pkg/packets"

	"verifharness/tc"
)

type Prop struct {
	ID int   `json:"id"`
	N  int   `json:"n"`
	S  []int `json:"s"`
	S2 []int `json:"s2"`
}

type Topic struct {
	F   []int `json:"f"`
	Qos int   `json:"qos"`
	Nl  bool  `json:"nl"`
	Rap bool  `json:"rap"`
	Rh  int   `json:"rh"`
}

// PV is the union of the fields of all packet value records of Codec.tla.
type PV struct {
	T         string  `json:"t"`
	V         int     `json:"v"`
	Clean     bool    `json:"clean,omitempty"`
	Keepalive int     `json:"keepalive,omitempty"`
	Cid       []int   `json:"cid,omitempty"`
	Will      bool    `json:"will,omitempty"`
	Wqos      int     `json:"wqos,omitempty"`
	Wretain   bool    `json:"wretain,omitempty"`
	Wtopic    []int   `json:"wtopic,omitempty"`
	Wmsg      []int   `json:"wmsg,omitempty"`
	Wprops    []Prop  `json:"wprops,omitempty"`
	Uflag     bool    `json:"uflag,omitempty"`
	User      []int   `json:"user,omitempty"`
	Pflag     bool    `json:"pflag,omitempty"`
	Pass      []int   `json:"pass,omitempty"`
	Props     []Prop  `json:"props,omitempty"`
	Sp        bool    `json:"sp,omitempty"`
	Code      int     `json:"code,omitempty"`
	Dup       bool    `json:"dup,omitempty"`
	Qos       int     `json:"qos,omitempty"`
	Retain    bool    `json:"retain,omitempty"`
	Topic     []int   `json:"topic,omitempty"`
	Pid       int     `json:"pid,omitempty"`
	Payload   []int   `json:"payload,omitempty"`
	Topics    []Topic `json:"topics,omitempty"`
	Codes     []int   `json:"codes,omitempty"`
	Filters   [][]int `json:"filters,omitempty"`
}

type Vec struct {
	Kind     string  `json:"kind"`
	P        *PV     `json:"p,omitempty"`
	Bytes    []int   `json:"bytes"`
	Alts     [][]int `json:"alts,omitempty"`
	Size     int     `json:"size"`
	Shortest bool    `json:"shortest"`
	Origin   string  `json:"origin,omitempty"`
	Fault    string  `json:"fault,omitempty"`
	Rule     string  `json:"rule,omitempty"`
	V        int     `json:"v"`
	Eof      bool    `json:"eof"`
	// kind "validity"
	S      []int `json:"s,omitempty"`
	Vn     bool  `json:"vn"`
	Vf     bool  `json:"vf"`
	Vs     bool  `json:"vs"`
	Pub    []int `json:"pub,omitempty"`
	Pub5   []int `json:"pub5,omitempty"`
	Sub    []int `json:"sub,omitempty"`
	Sub5   []int `json:"sub5,omitempty"`
	Unsub  []int `json:"unsub,omitempty"`
	Unsub5 []int `json:"unsub5,omitempty"`
}

var guard = []byte{0xA5, 0xA5, 0xA5}

func bs(x []int) []byte {
	b := make([]byte, len(x))
	for i, v := range x {
		b[i] = byte(v)
	}
	return b
}

func ints(b []byte) []int {
	x := make([]int, len(b))
	for i, v := range b {
		x[i] = int(v)
	}
	return x
}

func ver(v int) packets.Version {
	switch v {
	case 3:
		return packets.Version31
	case 5:
		return packets.Version5
	}
	return packets.Version311
}

func verInt(v packets.Version) int { return int(v) }

// ---------------------------------------------------------------- properties

func u32bytes(u uint32) []int {
	return []int{int(u >> 24), int(u >> 16 & 255), int(u >> 8 & 255), int(u & 255)}
}
func u32of(s []int) uint32 {
	var u uint32
	for _, b := range s {
		u = u<<8 | uint32(b)
	}
	return u
}

// propsFromReal lists the properties of a decoded packet in ascending identifier order.
func propsFromReal(p *packets.Properties) []Prop {
	out := []Prop{}
	if p == nil {
		return out
	}
	b := func(id int, v *byte) {
		if v != nil {
			out = append(out, Prop{ID: id, N: int(*v)})
		}
	}
	u16 := func(id int, v *uint16) {
		if v != nil {
			out = append(out, Prop{ID: id, N: int(*v)})
		}
	}
	u32 := func(id int, v *uint32) {
		if v != nil {
			out = append(out, Prop{ID: id, S: u32bytes(*v)})
		}
	}
	s := func(id int, v []byte) {
		if v != nil {
			out = append(out, Prop{ID: id, S: ints(v)})
		}
	}
	b(1, p.PayloadFormat)
	u32(2, p.MessageExpiry)
	s(3, p.ContentType)
	s(8, p.ResponseTopic)
	s(9, p.CorrelationData)
	for _, v := range p.SubscriptionIdentifier {
		out = append(out, Prop{ID: 11, N: int(v)})
	}
	u32(17, p.SessionExpiryInterval)
	s(18, p.AssignedClientID)
	u16(19, p.ServerKeepAlive)
	s(21, p.AuthMethod)
	s(22, p.AuthData)
	b(23, p.RequestProblemInfo)
	u32(24, p.WillDelayInterval)
	b(25, p.RequestResponseInfo)
	s(26, p.ResponseInfo)
	s(28, p.ServerReference)
	s(31, p.ReasonString)
	u16(33, p.ReceiveMaximum)
	u16(34, p.TopicAliasMaximum)
	u16(35, p.TopicAlias)
	b(36, p.MaximumQoS)
	b(37, p.RetainAvailable)
	for _, v := range p.User {
		out = append(out, Prop{ID: 38, S: ints(v.K), S2: ints(v.V)})
	}
	u32(39, p.MaximumPacketSize)
	b(40, p.WildcardSubAvailable)
	b(41, p.SubIDAvailable)
	b(42, p.SharedSubAvailable)
	return out
}

// propsToReal builds the Properties struct from a property list; emptyNil: an empty list is a nil pointer.
func propsToReal(ps []Prop, emptyNil bool) *packets.Properties {
	if len(ps) == 0 && emptyNil {
		return nil
	}
	p := &packets.Properties{}
	for _, x := range ps {
		x := x
		bv := byte(x.N)
		u16 := uint16(x.N)
		u32 := u32of(x.S)
		str := bs(x.S)
		switch x.ID {
		case 1:
			p.PayloadFormat = &bv
		case 2:
			p.MessageExpiry = &u32
		case 3:
			p.ContentType = str
		case 8:
			p.ResponseTopic = str
		case 9:
			p.CorrelationData = str
		case 11:
			p.SubscriptionIdentifier = append(p.SubscriptionIdentifier, uint32(x.N))
		case 17:
			p.SessionExpiryInterval = &u32
		case 18:
			p.AssignedClientID = str
		case 19:
			p.ServerKeepAlive = &u16
		case 21:
			p.AuthMethod = str
		case 22:
			p.AuthData = str
		case 23:
			p.RequestProblemInfo = &bv
		case 24:
			p.WillDelayInterval = &u32
		case 25:
			p.RequestResponseInfo = &bv
		case 26:
			p.ResponseInfo = str
		case 28:
			p.ServerReference = str
		case 31:
			p.ReasonString = str
		case 33:
			p.ReceiveMaximum = &u16
		case 34:
			p.TopicAliasMaximum = &u16
		case 35:
			p.TopicAlias = &u16
		case 36:
			p.MaximumQoS = &bv
		case 37:
			p.RetainAvailable = &bv
		case 38:
			p.User = append(p.User, packets.UserProperty{K: str, V: bs(x.S2)})
		case 39:
			p.MaximumPacketSize = &u32
		case 40:
			p.WildcardSubAvailable = &bv
		case 41:
			p.SubIDAvailable = &bv
		case 42:
			p.SharedSubAvailable = &bv
		}
	}
	return p
}

// ---------------------------------------------------------------- packet <-> value

func nz(x []int) []int {
	if x == nil {
		return []int{}
	}
	return x
}

// fromReal projects a real packet onto the fields of the specification's packet value.
func fromReal(pk packets.Packet, readerVer int) *PV {
	switch p := pk.(type) {
	case *packets.Connect:
		return &PV{T: "CONNECT", V: verInt(p.Version), Clean: p.CleanStart, Keepalive: int(p.KeepAlive), Cid: ints(p.ClientID),
			Will: p.WillFlag, Wqos: int(p.WillQos), Wretain: p.WillRetain, Wtopic: ints(p.WillTopic), Wmsg: ints(p.WillMsg),
			Wprops: propsFromReal(p.WillProperties), Uflag: p.UsernameFlag, User: ints(p.Username), Pflag: p.PasswordFlag,
			Pass: ints(p.Password), Props: propsFromReal(p.Properties)}
	case *packets.Connack:
		return &PV{T: "CONNACK", V: verInt(p.Version), Sp: p.SessionPresent, Code: int(p.Code), Props: propsFromReal(p.Properties)}
	case *packets.Publish:
		return &PV{T: "PUBLISH", V: verInt(p.Version), Dup: p.Dup, Qos: int(p.Qos), Retain: p.Retain, Topic: ints(p.TopicName),
			Pid: int(p.PacketID), Props: propsFromReal(p.Properties), Payload: ints(p.Payload)}
	case *packets.Puback:
		return &PV{T: "PUBACK", V: verInt(p.Version), Pid: int(p.PacketID), Code: int(p.Code), Props: propsFromReal(p.Properties)}
	case *packets.Pubrec:
		return &PV{T: "PUBREC", V: verInt(p.Version), Pid: int(p.PacketID), Code: int(p.Code), Props: propsFromReal(p.Properties)}
	case *packets.Pubrel: // no Version field
		return &PV{T: "PUBREL", V: readerVer, Pid: int(p.PacketID), Code: int(p.Code), Props: propsFromReal(p.Properties)}
	case *packets.Pubcomp:
		return &PV{T: "PUBCOMP", V: verInt(p.Version), Pid: int(p.PacketID), Code: int(p.Code), Props: propsFromReal(p.Properties)}
	case *packets.Subscribe:
		v := &PV{T: "SUBSCRIBE", V: verInt(p.Version), Pid: int(p.PacketID), Props: propsFromReal(p.Properties)}
		for _, t := range p.Topics {
			v.Topics = append(v.Topics, Topic{F: ints([]byte(t.Name)), Qos: int(t.Qos), Nl: t.NoLocal, Rap: t.RetainAsPublished, Rh: int(t.RetainHandling)})
		}
		return v
	case *packets.Suback:
		return &PV{T: "SUBACK", V: verInt(p.Version), Pid: int(p.PacketID), Props: propsFromReal(p.Properties), Codes: ints(p.Payload)}
	case *packets.Unsubscribe:
		v := &PV{T: "UNSUBSCRIBE", V: verInt(p.Version), Pid: int(p.PacketID), Props: propsFromReal(p.Properties)}
		for _, t := range p.Topics {
			v.Filters = append(v.Filters, ints([]byte(t)))
		}
		return v
	case *packets.Unsuback:
		return &PV{T: "UNSUBACK", V: verInt(p.Version), Pid: int(p.PacketID), Props: propsFromReal(p.Properties), Codes: ints(p.Payload)}
	case *packets.Pingreq:
		return &PV{T: "PINGREQ", V: readerVer}
	case *packets.Pingresp:
		return &PV{T: "PINGRESP", V: readerVer}
	case *packets.Disconnect:
		return &PV{T: "DISCONNECT", V: verInt(p.Version), Code: int(p.Code), Props: propsFromReal(p.Properties)}
	case *packets.Auth: // no Version field
		return &PV{T: "AUTH", V: readerVer, Code: int(p.Code), Props: propsFromReal(p.Properties)}
	}
	return &PV{T: fmt.Sprintf("%T", pk)}
}

// toReal builds the real packet struct from a packet value, the way a user of the package would.
func toReal(v *PV) packets.Packet {
	vv := ver(v.V)
	v5 := v.V == 5
	props := func(ps []Prop, emptyNil bool) *packets.Properties {
		if !v5 {
			return nil
		}
		return propsToReal(ps, emptyNil)
	}
	switch v.T {
	case "CONNECT":
		name := []byte("MQTT")
		if v.V == 3 {
			name = []byte("MQIsdp")
		}
		c := &packets.Connect{Version: vv, ProtocolLevel: vv, ProtocolName: name, UsernameFlag: v.Uflag, PasswordFlag: v.Pflag,
			WillRetain: v.Wretain, WillQos: byte(v.Wqos), WillFlag: v.Will, CleanStart: v.Clean, KeepAlive: uint16(v.Keepalive),
			ClientID: bs(v.Cid), Properties: props(v.Props, false)}
		if v.Will {
			c.WillTopic, c.WillMsg, c.WillProperties = bs(v.Wtopic), bs(v.Wmsg), props(v.Wprops, false)
		}
		if v.Uflag {
			c.Username = bs(v.User)
		}
		if v.Pflag {
			c.Password = bs(v.Pass)
		}
		return c
	case "CONNACK":
		return &packets.Connack{Version: vv, Code: byte(v.Code), SessionPresent: v.Sp, Properties: props(v.Props, false)}
	case "PUBLISH":
		return &packets.Publish{Version: vv, Dup: v.Dup, Qos: byte(v.Qos), Retain: v.Retain, TopicName: bs(v.Topic),
			PacketID: uint16(v.Pid), Payload: bs(v.Payload), Properties: props(v.Props, false)}
	case "PUBACK":
		return &packets.Puback{Version: vv, PacketID: uint16(v.Pid), Code: byte(v.Code), Properties: props(v.Props, true)}
	case "PUBREC":
		return &packets.Pubrec{Version: vv, PacketID: uint16(v.Pid), Code: byte(v.Code), Properties: props(v.Props, true)}
	case "PUBREL":
		return &packets.Pubrel{PacketID: uint16(v.Pid), Code: byte(v.Code), Properties: props(v.Props, true)}
	case "PUBCOMP":
		return &packets.Pubcomp{Version: vv, PacketID: uint16(v.Pid), Code: byte(v.Code), Properties: props(v.Props, true)}
	case "SUBSCRIBE":
		s := &packets.Subscribe{Version: vv, PacketID: uint16(v.Pid), Properties: props(v.Props, false)}
		for _, t := range v.Topics {
			s.Topics = append(s.Topics, packets.Topic{Name: string(bs(t.F)), SubOptions: packets.SubOptions{Qos: byte(t.Qos),
				RetainHandling: byte(t.Rh), NoLocal: t.Nl, RetainAsPublished: t.Rap}})
		}
		return s
	case "SUBACK":
		return &packets.Suback{Version: vv, PacketID: uint16(v.Pid), Payload: bs(v.Codes), Properties: props(v.Props, false)}
	case "UNSUBSCRIBE":
		u := &packets.Unsubscribe{Version: vv, PacketID: uint16(v.Pid), Properties: props(v.Props, false)}
		for _, f := range v.Filters {
			u.Topics = append(u.Topics, string(bs(f)))
		}
		return u
	case "UNSUBACK":
		return &packets.Unsuback{Version: vv, PacketID: uint16(v.Pid), Payload: bs(v.Codes), Properties: props(v.Props, false)}
	case "PINGREQ":
		return &packets.Pingreq{}
	case "PINGRESP":
		return &packets.Pingresp{}
	case "DISCONNECT":
		return &packets.Disconnect{Version: vv, Code: byte(v.Code), Properties: props(v.Props, true)}
	case "AUTH":
		return &packets.Auth{Code: byte(v.Code), Properties: props(v.Props, true)}
	}
	return nil
}

// canon renders a packet value for comparison: nil = empty, properties in ascending identifier order
// (stable: the relative order of User Properties / Subscription Identifiers is significant).
func canon(v *PV) string {
	c := *v
	sp := func(ps []Prop) []Prop {
		out := make([]Prop, len(ps))
		copy(out, ps)
		for i := range out {
			out[i].S, out[i].S2 = nz(out[i].S), nz(out[i].S2)
		}
		sort.SliceStable(out, func(i, j int) bool { return out[i].ID < out[j].ID })
		return out
	}
	c.Props, c.Wprops = sp(c.Props), sp(c.Wprops)
	ts := make([]Topic, len(c.Topics))
	copy(ts, c.Topics)
	for i := range ts {
		ts[i].F = nz(ts[i].F)
	}
	c.Topics = ts
	b, _ := json.Marshal(&c)
	return string(b)
}

// diffFields names the top-level fields in which two packet values differ.
func diffFields(a, b *PV) []string {
	var ma, mb map[string]json.RawMessage
	json.Unmarshal([]byte(canon(a)), &ma)
	json.Unmarshal([]byte(canon(b)), &mb)
	set := map[string]bool{}
	for k, v := range ma {
		if !bytes.Equal(v, mb[k]) {
			set[k] = true
		}
	}
	for k, v := range mb {
		if !bytes.Equal(v, ma[k]) {
			set[k] = true
		}
	}
	return sortedKeys(set)
}

func sortedKeys(set map[string]bool) []string {
	out := []string{}
	for k := range set {
		out = append(out, k)
	}
	sort.Strings(out)
	return out
}

// ---------------------------------------------------------------- running the real decoder / encoder

type decRes struct {
	pkt      packets.Packet
	err      error
	panicked string
	hang     bool
	alloc    uint64
	consumed int
}

var watchdog = 20 * time.Second

func decodeOnce(stream []byte, v int, isConnect bool, measure bool) (res *decRes) {
	res = &decRes{}
	br := bytes.NewReader(stream)
	bufr := bufio.NewReaderSize(br, 4096)
	rd := packets.NewReader(bufr)
	if !isConnect {
		// the broker's reader learns the version from CONNECT (Reader.ReadPacket); later packets are decoded with it
		rd.SetVersion(ver(v))
	}
	done := make(chan struct{})
	t := time.NewTimer(watchdog)
	go func() {
		defer close(done)
		defer func() {
			if x := recover(); x != nil {
				res.panicked = fmt.Sprint(x)
			}
		}()
		// cumulative bytes allocated on the heap by this process (runtime/metrics: no stop-the-world)
		var m0, m1 [1]metrics.Sample
		m0[0].Name, m1[0].Name = "/gc/heap/allocs:bytes", "/gc/heap/allocs:bytes"
		if measure {
			metrics.Read(m0[:])
		}
		res.pkt, res.err = rd.ReadPacket()
		if measure {
			metrics.Read(m1[:])
			res.alloc = m1[0].Value.Uint64() - m0[0].Value.Uint64()
		}
	}()
	select {
	case <-done:
		t.Stop()
	case <-t.C:
		return &decRes{hang: true}
	}
	res.consumed = len(stream) - br.Len() - bufr.Buffered()
	return res
}

func allocLimit(n int) uint64 { return uint64(32*n + 65536) }

// decode runs the real decoder on input (+ guard bytes unless the stream ends after it).  The driver is a single
// goroutine, so nothing else allocates while ReadPacket is measured; a small surplus is still re-measured and the
// minimum kept (a surplus above 1 MiB cannot be noise and is not re-measured).
func decode(input []byte, v int, eof bool) *decRes {
	stream := input
	if !eof {
		stream = append(append([]byte{}, input...), guard...)
	}
	isConnect := len(input) > 0 && input[0]>>4 == packets.CONNECT
	res := decodeOnce(stream, v, isConnect, true)
	if res.hang {
		// a verdict "hang" must not come from a loaded machine: collect garbage, then once more with a longer watchdog
		runtime.GC()
		debug.FreeOSMemory()
		old := watchdog
		watchdog = 4 * old
		res = decodeOnce(stream, v, isConnect, true)
		watchdog = old
	}
	for i := 0; i < 3 && !res.hang && res.panicked == "" && res.alloc > allocLimit(len(input)) && res.alloc < allocLimit(len(input))+1<<20; i++ {
		r2 := decodeOnce(stream, v, isConnect, true)
		if r2.hang || r2.panicked != "" {
			return r2
		}
		if r2.alloc < res.alloc {
			res.alloc = r2.alloc
		}
	}
	return res
}

func pack(pk packets.Packet) (out []byte, perr string) {
	defer func() {
		if x := recover(); x != nil {
			perr = fmt.Sprint("panic: ", x)
		}
	}()
	var buf bytes.Buffer
	if err := pk.Pack(&buf); err != nil {
		return nil, err.Error()
	}
	return buf.Bytes(), ""
}

// ---------------------------------------------------------------- divergence bookkeeping (minimal example per signature)

type divRec struct {
	Prefix string   // signature = Prefix + tokens joined by "+" when Tokens != nil
	Tokens []string // features of the vector; a signature whose features strictly include those of another one with the same prefix is dropped
	Count  int
	What   string
	Len    int
	Extra  map[string]interface{}
}

var (
	mu    sync.Mutex
	divs  = map[string]*divRec{}
	seen  = map[uint64]struct{}{}
	nontr int64
)

func div(sig, what string, vec *Vec, extra map[string]interface{}) {
	mu.Lock()
	defer mu.Unlock()
	d := divs[sig]
	n := len(vec.Bytes)
	if d == nil {
		d = &divRec{Len: 1 << 30}
		divs[sig] = d
	}
	d.Count++
	if n < d.Len {
		if extra == nil {
			extra = map[string]interface{}{}
		}
		extra["hex"] = hex.EncodeToString(bs(vec.Bytes))
		if len(vec.Bytes) <= 4096 {
			extra["vector"] = vec
		}
		extra["version"] = vecVersion(vec)
		extra["eof"] = vec.Eof
		if vec.Kind == "fault" {
			extra["fault"], extra["rule"] = vec.Fault, vec.Rule
		} else if vec.Kind == "valid" {
			extra["value"] = vec.P
			extra["origin"] = vec.Origin
		}
		d.Len, d.What, d.Extra = n, what, extra
	}
}

func totalDivs() int {
	n := 0
	for _, d := range divs {
		n += d.Count
	}
	return n
}

func vecVersion(v *Vec) int {
	if v.Kind == "valid" {
		return v.P.V
	}
	return v.V
}

func vclass(v int) string {
	if v == 5 {
		return "v5"
	}
	return "v3"
}

func typeOfBytes(b []int) string {
	names := []string{"RESERVED0", "CONNECT", "CONNACK", "PUBLISH", "PUBACK", "PUBREC", "PUBREL", "PUBCOMP", "SUBSCRIBE", "SUBACK",
		"UNSUBSCRIBE", "UNSUBACK", "PINGREQ", "PINGRESP", "DISCONNECT", "AUTH"}
	if len(b) == 0 {
		return "EMPTY"
	}
	return names[b[0]>>4]
}

func member(x []byte, vec *Vec) bool {
	if bytes.Equal(x, bs(vec.Bytes)) {
		return true
	}
	for _, a := range vec.Alts {
		if bytes.Equal(x, bs(a)) {
			return true
		}
	}
	return false
}

// common checks on every decode: panic, hang, allocation; returns false when the result is unusable
func common(res *decRes, vec *Vec, input []byte, rep *tc.Reporter) bool {
	ty := typeOfBytes(vec.Bytes)
	if res.hang {
		div("hang:"+ty, fmt.Sprintf("ReadPacket did not return within %v (twice) on %x", watchdog, head(input)), vec, nil)
		return false
	}
	if res.panicked != "" {
		div("panic:"+ty, fmt.Sprintf("ReadPacket panicked on %x: %s", head(input), res.panicked), vec, nil)
		return false
	}
	if res.alloc > allocLimit(len(input)) {
		div("alloc:declared-length", fmt.Sprintf("ReadPacket allocated %d bytes of heap for %d bytes of input %x (limit 32*len+65536 = %d)",
			res.alloc, len(input), head(input), allocLimit(len(input))), vec, map[string]interface{}{"allocated": res.alloc})
	}
	return true
}

func head(b []byte) []byte {
	if len(b) > 48 {
		return b[:48]
	}
	return b
}

func checkValid(vec *Vec, rep *tc.Reporter) {
	p := vec.P
	in := bs(vec.Bytes)
	ty := p.T
	vc := vclass(p.V)
	rep.Count("valid:"+ty, 1)
	res := decode(in, p.V, false)
	if !common(res, vec, in, rep) {
		return
	}
	if res.err != nil || res.pkt == nil {
		divF(fmt.Sprintf("reject-valid:%s:", ty), features(vec, true), fmt.Sprintf("ReadPacket(v=%d) rejects the well-formed %s %x: %v; value %s",
			p.V, ty, head(in), res.err, canon(p)), vec, map[string]interface{}{"error": fmt.Sprint(res.err)})
	} else {
		if res.consumed != len(in) {
			div("consumed:"+ty, fmt.Sprintf("ReadPacket consumed %d bytes of the stream for the %d-byte %s %x", res.consumed, len(in), ty, head(in)), vec, nil)
		}
		got := fromReal(res.pkt, p.V)
		if canon(got) != canon(p) {
			fs := diffFields(got, p)
			div(fmt.Sprintf("field:%s:%s:%v", ty, vc, fs), fmt.Sprintf("decoded %s (v=%d) %x differs from the specification's value in %v: got %s, want %s",
				ty, p.V, head(in), fs, canon(got), canon(p)), vec, map[string]interface{}{"got": got})
		}
		if tb := packets.TotalBytes(res.pkt); int(tb) != len(in) && vec.Origin == "rl_noncanon" {
			div("totalbytes-decoded:noncanonical-remaining-length", fmt.Sprintf("packets.TotalBytes = %d after decoding the %d-byte %s %x (3.1.1 allows the padded Remaining Length)",
				tb, len(in), ty, head(in)), vec, nil)
		} else if int(tb) != len(in) {
			div("totalbytes-decoded:"+ty, fmt.Sprintf("packets.TotalBytes = %d after decoding the %d-byte %s %x", tb, len(in), ty, head(in)), vec, nil)
		}
		// Message size accounting (PUBLISH): TotalBytes of the message = size of the packet the message is published as
		if pub, ok := res.pkt.(*packets.Publish); ok {
			checkMessage(pub, vec, in)
		}
		// re-encode the decoded packet
		re, perr := pack(res.pkt)
		if perr != "" {
			div("reencode-error:"+ty, fmt.Sprintf("Pack of the decoded %s %x fails: %s", ty, head(in), perr), vec, nil)
		} else {
			if !member(re, vec) {
				div(fmt.Sprintf("reencode:%s:%s", ty, vc), fmt.Sprintf("decoded %s (v=%d) %x re-encodes to %x, which is not an encoding of the value",
					ty, p.V, head(in), head(re)), vec, map[string]interface{}{"reencoded": hex.EncodeToString(head(re))})
			}
			if tb := packets.TotalBytes(res.pkt); int(tb) != len(re) {
				div("totalbytes-packed:"+ty, fmt.Sprintf("packets.TotalBytes = %d after Pack wrote %d bytes (%s)", tb, len(re), ty), vec, nil)
			}
		}
		// the same bytes at the end of the stream
		r2 := decode(in, p.V, true)
		if common(r2, vec, in, rep) && (r2.err != nil || r2.pkt == nil) {
			div("reject-valid-at-eof:"+ty, fmt.Sprintf("ReadPacket rejects the well-formed %s %x when the stream ends after it: %v", ty, head(in), r2.err), vec, nil)
		}
	}
	// TV direction: the real encoder on the value
	pk := toReal(p)
	enc, perr := pack(pk)
	if perr != "" {
		div(fmt.Sprintf("encode-error:%s:%s", ty, vc), fmt.Sprintf("Pack of %s fails: %s", canon(p), perr), vec, nil)
		return
	}
	if !member(enc, vec) {
		divF(fmt.Sprintf("encode:%s:%s:", ty, vc), features(vec, false), fmt.Sprintf("Pack of %s (v=%d) gives %x; the specification's encodings are %x (+%d alternatives)",
			ty, p.V, head(enc), head(in), len(vec.Alts)), vec, map[string]interface{}{"encoded": hex.EncodeToString(head(enc))})
	}
	if tb := packets.TotalBytes(pk); int(tb) != len(enc) {
		div("totalbytes-packed:"+ty, fmt.Sprintf("packets.TotalBytes = %d after Pack wrote %d bytes (%s)", tb, len(enc), ty), vec, nil)
	}
	if p.V == 5 && len(p.Props) > 0 && member(enc, vec) && len(concSamples) < 64 {
		concSamples = append(concSamples, concSample{vec: vec, ref: append([]byte(nil), enc...)})
	}
	// the message built from the value (outbound direction: the decoder refuses Subscription Identifiers in a PUBLISH,
	// finding D11, so messages with identifiers are only reached from here)
	if pub, ok := pk.(*packets.Publish); ok && member(enc, vec) {
		checkMessage(pub, vec, enc)
	}
}

// features names what distinguishes a packet value (for specific signatures): its properties, will properties,
// password; with content = true also content classes of its strings / binary data (labels only)
func features(vec *Vec, content bool) []string {
	p := vec.P
	set := map[string]bool{}
	for _, x := range p.Props {
		set[fmt.Sprintf("prop%d", x.ID)] = true
	}
	for _, x := range p.Wprops {
		set[fmt.Sprintf("willprop%d", x.ID)] = true
	}
	if p.T == "CONNECT" && p.Pflag {
		set["password"] = true
	}
	if !content {
		return sortedKeys(set)
	}
	fffd := func(x []int) bool { return bytes.Contains(bs(x), []byte{0xEF, 0xBF, 0xBD}) }
	nontext := func(x []int) bool {
		b := bs(x)
		if !utf8.Valid(b) {
			return true
		}
		for _, c := range b {
			if c < 0x20 || c == 0x7F {
				return true
			}
		}
		return false
	}
	strs := [][]int{p.Cid, p.Wtopic, p.User, p.Topic}
	bins := [][]int{p.Wmsg, p.Pass}
	for _, t := range p.Topics {
		strs = append(strs, t.F)
	}
	strs = append(strs, p.Filters...)
	for _, x := range append(append([]Prop{}, p.Props...), p.Wprops...) {
		if x.ID == 9 || x.ID == 22 {
			bins = append(bins, x.S)
		} else if x.ID != 2 && x.ID != 17 && x.ID != 24 && x.ID != 39 {
			strs = append(strs, x.S, x.S2)
		}
	}
	for _, x := range strs {
		if fffd(x) {
			return []string{"U+FFFD"} // one code path (ValidUTF8) for every string field of every packet type
		}
	}
	for _, x := range bins {
		if nontext(x) {
			set["nontext-binary"] = true
		}
	}
	return sortedKeys(set)
}

func divF(prefix string, toks []string, what string, vec *Vec, extra map[string]interface{}) {
	if len(toks) == 1 && toks[0] == "U+FFFD" {
		prefix = prefix[:strings.Index(prefix, ":")+1]
	}
	sig := prefix + strings.Join(toks, "+")
	div(sig, what, vec, extra)
	mu.Lock()
	divs[sig].Prefix, divs[sig].Tokens = prefix, toks
	mu.Unlock()
}

func lossless(p *PV) bool {
	for _, x := range p.Props {
		switch x.ID {
		case 1:
			if x.N == 0 {
				return false
			}
		case 2:
			if u32of(x.S) == 0 {
				return false
			}
		case 3, 8, 9:
			if len(x.S) == 0 {
				return false
			}
		case 38, 11:
		default: // a topic alias is not part of a Message
			return false
		}
	}
	return true
}

func checkMessage(pub *packets.Publish, vec *Vec, in []byte) {
	defer func() {
		if x := recover(); x != nil {
			div("panic:message", fmt.Sprintf("MessageFromPublish/TotalBytes panicked on the decoded PUBLISH %x: %v", head(in), x), vec, nil)
		}
	}()
	v := ver(vec.P.V)
	msg := gmqtt.MessageFromPublish(pub)
	msg.PacketID = pub.PacketID
	if pub.Properties != nil && v == packets.Version5 {
		// what the delivery path does after MessageFromPublish: the identifiers of the matching subscriptions
		msg.SubscriptionIdentifier = append([]uint32(nil), pub.Properties.SubscriptionIdentifier...)
	}
	tb := msg.TotalBytes(v)
	out, perr := pack(gmqtt.MessageToPublish(msg, v))
	if perr != "" {
		div("message-pack-error", "Pack(MessageToPublish(MessageFromPublish(p))) fails: "+perr, vec, nil)
		return
	}
	if int(tb) != len(out) {
		div("message-totalbytes", fmt.Sprintf("Message.TotalBytes(v=%d) = %d but MessageToPublish(msg) packs to %d bytes (%x); decoded from %x",
			vec.P.V, tb, len(out), head(out), head(in)), vec, nil)
	}
	if vec.Shortest && lossless(vec.P) && int(tb) != len(in) {
		div("message-totalbytes-vs-wire", fmt.Sprintf("Message.TotalBytes(v=%d) = %d for the %d-byte PUBLISH %x", vec.P.V, tb, len(in), head(in)), vec, nil)
	}
}

// faults of the fixed header / length prefixes: one code path for all packet types
var framing = map[string]bool{"rl_5byte": true, "rl_noncanon": true, "proplen_noncanon": true, "subid_noncanon": true, "type_reserved": true}

// zero-length packets accepted from a stream that ends after the first byte: one code path (EncodeRemainLength)
func init() { framing["trunc_stream"] = true }

func checkFault(vec *Vec, rep *tc.Reporter) {
	in := bs(vec.Bytes)
	rep.Count("fault:"+vec.Fault, 1)
	res := decode(in, vec.V, vec.Eof)
	if !common(res, vec, in, rep) {
		return
	}
	if res.err == nil && res.pkt != nil {
		ty := typeOfBytes(vec.Bytes)
		got := fromReal(res.pkt, vec.V)
		sig := fmt.Sprintf("accept:%s:%s", vec.Fault, ty)
		if framing[vec.Fault] {
			sig = "accept:" + vec.Fault
		}
		div(sig, fmt.Sprintf("ReadPacket(v=%d) accepts %x as %s; the specification rejects it: %s (%s)",
			vec.V, head(in), canon(got), vec.Fault, vec.Rule), vec, map[string]interface{}{"got": got})
	}
}

// strClass labels the shape of a topic string (label for signatures only; the verdicts come from TLC's table)
func strClass(b []byte) string {
	switch {
	case len(b) == 0:
		return "empty"
	case bytes.IndexByte(b, 0) >= 0:
		return "nul"
	case !utf8.Valid(b):
		return "ill-formed-utf8"
	case bytes.HasPrefix(b, []byte("$share/")):
		return "share"
	case b[0] == '+' && len(b) > 1 && b[1] != '/':
		return "leading-plus-not-alone"
	case bytes.ContainsAny(b, "+#"):
		return "wildcard"
	}
	return "plain"
}

func checkValidity(vec *Vec, rep *tc.Reporter) {
	b := bs(vec.S)
	cl := strClass(b)
	rep.Count("validity", 1)
	fn := func(name string, got, want bool) {
		if got != want {
			word := map[bool]string{true: "accepts", false: "rejects"}[got]
			vv := *vec
			vv.Bytes = vec.S
			div(fmt.Sprintf("validity:%s:%s:%s", name, word, cl), fmt.Sprintf("%s(%q) = %v, MQTT 4.7/4.8.2/1.5.4 (Codec.tla) says %v", name, b, got, want), &vv,
				map[string]interface{}{"string": fmt.Sprintf("%q", b)})
		}
	}
	// a validator that panics is "not total": reported, never a crash of the driver
	safe := func(name string, f func() bool, want bool) {
		defer func() {
			if x := recover(); x != nil {
				vv := *vec
				vv.Bytes = vec.S
				div(fmt.Sprintf("validity:%s:panic:%s", name, cl), fmt.Sprintf("%s(%q) panicked: %v", name, b, x), &vv,
					map[string]interface{}{"string": fmt.Sprintf("%q", b)})
			}
		}()
		fn(name, f(), want)
	}
	safe("ValidTopicName", func() bool { return packets.ValidTopicName(true, b) }, vec.Vn)
	safe("ValidTopicFilter", func() bool { return packets.ValidTopicFilter(true, b) }, vec.Vf)
	safe("ValidV5Topic", func() bool { return packets.ValidV5Topic(b) }, vec.Vs)
	pk := func(name string, in []int, v int, want bool) {
		raw := bs(in)
		res := decode(raw, v, false)
		fv := new(Vec)
		*fv = *vec
		fv.Bytes, fv.V = in, v
		if !common(res, fv, raw, rep) {
			return
		}
		got := res.err == nil && res.pkt != nil
		if got != want {
			word := map[bool]string{true: "accepts", false: "rejects"}[got]
			div(fmt.Sprintf("validity:decoder:%s:%s:%s", name, word, cl), fmt.Sprintf("ReadPacket(v=%d) %s the %s %x carrying the topic %q; MQTT 4.7/4.8.2/1.5.4 (Codec.tla) says valid = %v",
				v, word, name, raw, b, want), fv, map[string]interface{}{"string": fmt.Sprintf("%q", b)})
		}
	}
	pk("PUBLISH", vec.Pub, 4, vec.Vn)
	pk("PUBLISH", vec.Pub5, 5, vec.Vn)
	pk("SUBSCRIBE", vec.Sub, 4, vec.Vf)
	pk("SUBSCRIBE", vec.Sub5, 5, vec.Vs)
	pk("UNSUBSCRIBE", vec.Unsub, 4, vec.Vf)
	pk("UNSUBSCRIBE", vec.Unsub5, 5, vec.Vs)
}

// concurrent encoders: the encoders share a pool of scratch buffers (bufferPool); a value must encode to the same bytes
// whatever other goroutines encode at the same time
type concSample struct {
	vec *Vec
	ref []byte
}

var concSamples []concSample

func concurrentEncoders(d time.Duration) (rounds int64) {
	if len(concSamples) < 4 || d <= 0 {
		return 0
	}
	var wg sync.WaitGroup
	var stop, n int64
	for g := 0; g < 64; g++ {
		wg.Add(1)
		go func(g int) {
			defer wg.Done()
			cs := concSamples[g%len(concSamples)]
			for atomic.LoadInt64(&stop) == 0 {
				enc, perr := pack(toReal(cs.vec.P))
				atomic.AddInt64(&n, 1)
				if perr != "" || !bytes.Equal(enc, cs.ref) {
					div("encode-concurrent:"+cs.vec.P.T, fmt.Sprintf("while 64 goroutines encode, Pack of %s gives %x (%s) instead of %x (the bytes it gives alone)",
						canon(cs.vec.P), head(enc), perr, head(cs.ref)), cs.vec, nil)
					return
				}
			}
		}(g)
	}
	time.Sleep(d)
	atomic.StoreInt64(&stop, 1)
	wg.Wait()
	return n
}

func main() {
	conc := flag.Duration("concurrent", 1500*time.Millisecond, "duration of the concurrent-encoders phase (0 = none)")
	raw := flag.Bool("raw", false, "input lines are plain JSON vectors (replay), not TLC string literals")
	wd := flag.Duration("watchdog", 20*time.Second, "per-decode watchdog")
	flag.Parse()
	watchdog = *wd
	debug.SetGCPercent(100) // (tc raises it; the oversize vectors make large garbage)
	rep := tc.NewReporter()
	var nvalid, nfault int64
	handle := func(js []byte) {
		var vec Vec
		if err := json.Unmarshal(js, &vec); err != nil {
			fmt.Fprintln(os.Stderr, "bad vector:", err)
			os.Exit(2)
		}
		if vec.Kind == "" {
			// not a vector: TLC pre-evaluates constant definitions of instantiated modules (TopicStr!DumpAll prints its table)
			rep.Count("ignored-lines", 1)
			return
		}
		h := fnv.New64a()
		h.Write([]byte{byte(vecVersion(&vec))})
		if vec.Kind == "validity" {
			h.Write(bs(vec.S))
		}
		if vec.Eof {
			h.Write([]byte{1})
		}
		h.Write(bs(vec.Bytes))
		k := h.Sum64()
		mu.Lock()
		if _, ok := seen[k]; !ok {
			seen[k] = struct{}{}
			// non-trivial: a fault, or a packet with a non-empty body (at least one encoded field)
			if vec.Kind == "fault" || len(vec.Bytes) > 2 || (vec.Kind == "validity" && len(vec.S) > 0) {
				nontr++
			}
		}
		mu.Unlock()
		rep.N++
		switch vec.Kind {
		case "valid":
			nvalid++
			checkValid(&vec, rep)
			if vec.P.T != "PINGREQ" && len(vec.P.Props) > 0 {
				rep.Sample(sample(&vec), 6)
			}
		case "fault":
			nfault++
			checkFault(&vec, rep)
			if vec.Fault != "trunc_stream" && vec.Fault != "trunc_body" && nfault%7 == 0 {
				rep.Sample(sample(&vec), 4)
			}
		case "validity":
			checkValidity(&vec, rep)
			if len(vec.S) > 2 && (vec.Vf != vec.Vn || bytes.IndexByte(bs(vec.S), 0) >= 0) {
				b, _ := json.Marshal(map[string]interface{}{"kind": "validity", "string": fmt.Sprintf("%q", bs(vec.S)), "valid_name": vec.Vn,
					"valid_filter": vec.Vf, "valid_v5_subscription_filter": vec.Vs})
				rep.Sample(b, 2)
			}
			if vec.Vn || vec.Vf || vec.Vs {
				nvalid++
			} else {
				nfault++
			}
		default:
			fmt.Fprintf(os.Stderr, "unknown vector kind %q in %.300s\n", vec.Kind, js)
			os.Exit(2)
		}
	}
	// one goroutine reads, parses and checks (no tc.Each fan-out): nothing else allocates while a decode is measured
	br := bufio.NewReaderSize(os.Stdin, 1<<20)
	for {
		line, err := br.ReadBytes('\n')
		if len(line) > 1 && line[0] != '"' && !*raw {
			os.Stderr.Write(line) // TLC chatter for the orchestrator
		} else if len(line) > 1 {
			js, e2 := line, error(nil)
			if !*raw {
				js, e2 = tc.Unquote(line)
			}
			if e2 != nil {
				fmt.Fprintf(os.Stderr, "bad line from TLC: %v: %.200s\n", e2, line)
				os.Exit(2)
			}
			handle(js)
		}
		if err != nil {
			break
		}
	}
	if n := concurrentEncoders(*conc); n > 0 {
		rep.Count("concurrent_encodings", n)
	}
	w := bufio.NewWriter(os.Stdout)
	sigs := []string{}
	for s := range divs {
		sigs = append(sigs, s)
	}
	sort.Strings(sigs)
	subset := func(a, b []string) bool { // a strictly inside b
		if len(a) >= len(b) {
			return false
		}
		in := map[string]bool{}
		for _, x := range b {
			in[x] = true
		}
		for _, x := range a {
			if !in[x] {
				return false
			}
		}
		return true
	}
	for _, s := range sigs {
		d := divs[s]
		subsumed := false
		if d.Tokens != nil {
			for _, o := range divs {
				if o != d && o.Tokens != nil && o.Prefix == d.Prefix && subset(o.Tokens, d.Tokens) {
					subsumed = true
				}
			}
		}
		if subsumed {
			continue
		}
		d.Extra["count"] = d.Count
		b, _ := json.Marshal(tc.Divergence{Kind: "div", Signature: s, What: d.What, Extra: d.Extra})
		w.Write(b)
		w.WriteByte('\n')
	}
	w.Flush()
	rep.NonTriv = nontr
	rep.Summary(map[string]interface{}{"valid": nvalid, "faults": nfault, "distinct_inputs": len(seen), "signatures": len(sigs), "divergences": totalDivs()})
}

func sample(vec *Vec) []byte {
	m := map[string]interface{}{"kind": vec.Kind, "version": vecVersion(vec), "hex": hex.EncodeToString(head(bs(vec.Bytes)))}
	if vec.Kind == "valid" {
		if len(vec.Bytes) <= 48 {
			m["value"] = vec.P
		}
		m["encodings"] = 1 + len(vec.Alts)
	} else {
		m["fault"], m["rule"], m["eof"], m["expect"] = vec.Fault, vec.Rule, vec.Eof, "reject"
	}
	b, _ := json.Marshal(m)
	return b
}
