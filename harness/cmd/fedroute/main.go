// fedroute replays every transition of FedRoute.tla (TLC output on stdin) on REAL Federation objects, one per
// node, built through plugin/federation/verif_export.go: the real hook wrappers (OnSubscribed, OnUnsubscribed,
// OnMsgArrived, OnWillPublish -> sendMessage), the real peer eventQueues (read back as the record of what was
// forwarded to whom), the real Hello / eventStreamHandler on the receiving nodes with a recording Publisher and
// the real retained stores, the real mem subscription stores as the nodes' core stores.
//
// Subscription changes are propagated at once (the harness carries the queued events to the other nodes'
// eventStreamHandler: "once the change has propagated").  For a publication the driver observes: to which peers
// an event was queued (and how many), drop / IterationOptions returned to the core, what a delivery with these
// options reaches in the origin's core store, what Publisher.Publish (a delivery with TypeAll,
// server/publish_service.go) reaches on every receiver, whether a receiver queues anything itself, the round
// robin counters and the retained stores.  Expected values come from the specification (TLC's output), the
// Match relation included.  If the model marks the outcome as violating a clause of C17, the clause is
// re-evaluated on what was observed on the real objects and reported as a divergence of the real code.
package main

import (
	"context"
	"encoding/json"
	"flag"
	"fmt"
	"net"
	"os"
	"reflect"
	"sort"
	"strings"
	"sync"
	"sync/atomic"
	"time"

	"google.golang.org/grpc/metadata"

	"github.com/DrmagicE/gmqtt"
	"github.com/DrmagicE/gmqtt/persistence/subscription"
	"github.com/DrmagicE/gmqtt/persistence/subscription/mem"
	"github.com/DrmagicE/gmqtt/pkg/packets"
	fed "github.com/DrmagicE/gmqtt/plugin/federation"
	"github.com/DrmagicE/gmqtt/retained"
	"github.com/DrmagicE/gmqtt/retained/trie"
	"github.com/DrmagicE/gmqtt/server"

	"github.com/hashicorp/serf/serf"

	"verifharness/tc"
)

type CF struct {
	C string `json:"c"`
	F string `json:"f"`
}

type DL struct {
	Node string   `json:"node"`
	NS   []CF     `json:"ns"`
	GR   []string `json:"gr"`
}

type Op struct {
	Op   string   `json:"op"`
	Node string   `json:"node"`
	C    string   `json:"c"`
	F    string   `json:"f"`
	T    string   `json:"t"`
	Kind string   `json:"kind"`
	Fwd  []string `json:"fwd"`
	Drop bool     `json:"drop"`
	Opts string   `json:"opts"`
	Dl   []DL     `json:"dl"`
}

type Trans struct {
	Pre  []Op `json:"pre"`
	Op   Op   `json:"op"`
	Subs []struct {
		Node string `json:"node"`
		C    string `json:"c"`
		F    string `json:"f"`
	} `json:"subs"`
	RR []struct {
		Node string `json:"node"`
		F    string `json:"f"`
		K    int    `json:"k"`
	} `json:"rr"`
	Ret []struct {
		Node string `json:"node"`
		T    string `json:"t"`
		P    string `json:"p"`
	} `json:"ret"`
	Bad []string `json:"bad"`
}

type Meta struct {
	Nodes   []string `json:"nodes"`
	Filters []string `json:"filters"`
	Topics  []string `json:"topics"`
}

var (
	meta    Meta
	match   = map[[2]string]bool{}
	haveTab bool
	rep     = tc.NewReporter()
	minMu   sync.Mutex
	minimal = map[string]json.RawMessage{}
	minLen  = map[string]int{}
	badSeen int64
	viaWill int64
)

type fakeSerf struct{}

func (fakeSerf) Join([]string, bool) (int, error) { return 0, nil }
func (fakeSerf) RemoveFailedNode(string) error    { return nil }
func (fakeSerf) Leave() error                     { return nil }
func (fakeSerf) Members() []serf.Member           { return nil }
func (fakeSerf) Shutdown() error                  { return nil }

type fakeMQTTClient struct{ opts server.ClientOptions }

func (c *fakeMQTTClient) ClientOptions() *server.ClientOptions { return &c.opts }
func (c *fakeMQTTClient) SessionInfo() *gmqtt.Session          { return nil }
func (c *fakeMQTTClient) Version() packets.Version             { return packets.Version5 }
func (c *fakeMQTTClient) ConnectedAt() time.Time               { return time.Time{} }
func (c *fakeMQTTClient) Connection() net.Conn                 { return nil }
func (c *fakeMQTTClient) Close()                               {}
func (c *fakeMQTTClient) Disconnect(*packets.Disconnect)       {}

type recPublisher struct{ msgs []*gmqtt.Message }

func (r *recPublisher) Publish(m *gmqtt.Message) { r.msgs = append(r.msgs, m) }

type node struct {
	name      string
	f         *fed.Federation
	core      *mem.TrieDB
	ret       retained.Store
	pub       *recPublisher
	subHook   server.OnSubscribed
	unsubHook server.OnUnsubscribed
	msgHook   server.OnMsgArrived
	willHook  server.OnWillPublish
}

type world struct {
	nodes map[string]*node
	npub  int
}

func split(full string) (share, filter string) {
	if strings.HasPrefix(full, "$share/") {
		p := strings.SplitN(full, "/", 3)
		return p[1], p[2]
	}
	return "", full
}

func newWorld() *world {
	w := &world{nodes: map[string]*node{}}
	for _, n := range meta.Nodes {
		nd := &node{name: n, core: mem.NewStore(), ret: trie.NewStore(), pub: &recPublisher{}}
		nd.f = fed.VerifNew(fed.VerifOptions{NodeName: n, Serf: fakeSerf{}, LocalSubs: nd.core, Retained: nd.ret, Publisher: nd.pub})
		nd.subHook = nd.f.OnSubscribedWrapper(func(context.Context, server.Client, *gmqtt.Subscription) {})
		nd.unsubHook = nd.f.OnUnsubscribedWrapper(func(context.Context, server.Client, string) {})
		nd.msgHook = nd.f.OnMsgArrivedWrapper(func(context.Context, server.Client, *server.MsgArrivedRequest) error { return nil })
		nd.willHook = nd.f.OnWillPublishWrapper(func(context.Context, string, *server.WillMsgRequest) {})
		w.nodes[n] = nd
	}
	for _, nd := range w.nodes {
		nd.f.VerifNodeJoin(meta.Nodes...)
	}
	// one server-side session per ordered pair, made by the real handshake handler
	for _, a := range w.nodes {
		for _, b := range w.nodes {
			if a == b {
				continue
			}
			ctx := metadata.NewIncomingContext(context.Background(), metadata.Pairs("node_name", a.name))
			if _, err := b.f.Hello(ctx, &fed.ClientHello{SessionId: a.f.VerifPeer(b.name).SessionID()}); err != nil {
				panic("Hello: " + err.Error())
			}
		}
	}
	return w
}

// carry delivers what node `from` has queued for its peers to their eventStreamHandler; it returns the events per peer.
func (w *world) carry(from *node) (map[string][]*fed.Event, string) {
	out := map[string][]*fed.Event{}
	for _, pn := range from.f.VerifPeerNames() {
		p := from.f.VerifPeer(pn)
		evs := p.Queue().Events
		if len(evs) == 0 {
			continue
		}
		out[pn] = evs
		for _, e := range evs {
			ack, ok := w.nodes[pn].f.VerifEventStreamHandler(from.name, e)
			if !ok || ack == nil || ack.EventId != e.Id {
				return out, fmt.Sprintf("eventStreamHandler on %s for event %d of %s: ok=%v ack=%v", pn, e.Id, from.name, ok, ack)
			}
		}
		p.Ack(evs[len(evs)-1].Id)
		if left := p.Queue().Events; len(left) != 0 {
			return out, fmt.Sprintf("queue of %s for %s not empty after the acknowledgement", from.name, pn)
		}
	}
	return out, ""
}

type delivery struct {
	ns []CF
	gr []string
}

func deliver(core *mem.TrieDB, opts subscription.IterationOptions) delivery {
	var d delivery
	g := map[string]bool{}
	core.Iterate(func(c string, s *gmqtt.Subscription) bool {
		if s.ShareName != "" {
			g[s.GetFullTopicName()] = true
		} else {
			d.ns = append(d.ns, CF{c, s.TopicFilter})
		}
		return true
	}, opts)
	for k := range g {
		d.gr = append(d.gr, k)
	}
	sort.Strings(d.gr)
	sort.Slice(d.ns, func(i, j int) bool {
		if d.ns[i].C != d.ns[j].C {
			return d.ns[i].C < d.ns[j].C
		}
		return d.ns[i].F < d.ns[j].F
	})
	return d
}

// observed outcome of one publication
type outcome struct {
	fwd   []string
	drop  bool
	opts  string
	dl    map[string]delivery
	notes []string // anything the model has no word for (two events to one peer, a receiver queueing events, ...)
}

func defaultOpts(topic string) subscription.IterationOptions {
	return subscription.IterationOptions{Type: subscription.TypeAll, TopicName: topic, MatchType: subscription.MatchFilter}
}

func (w *world) apply(op Op, will bool) (*outcome, string) {
	nd := w.nodes[op.Node]
	ctx := context.Background()
	switch op.Op {
	case "sub":
		sh, f := split(op.F)
		sub := &gmqtt.Subscription{ShareName: sh, TopicFilter: f}
		if _, err := nd.core.Subscribe(op.C, sub); err != nil {
			return nil, "core Subscribe: " + err.Error()
		}
		nd.subHook(ctx, &fakeMQTTClient{opts: server.ClientOptions{ClientID: op.C}}, sub)
		_, msg := w.carry(nd)
		return nil, msg
	case "unsub":
		if err := nd.core.Unsubscribe(op.C, op.F); err != nil {
			return nil, "core Unsubscribe: " + err.Error()
		}
		nd.unsubHook(ctx, &fakeMQTTClient{opts: server.ClientOptions{ClientID: op.C}}, op.F)
		_, msg := w.carry(nd)
		return nil, msg
	case "pub":
		w.npub++
		m := &gmqtt.Message{Topic: op.T, QoS: 1, Retained: op.Kind != "plain"}
		if op.Kind != "clear" {
			m.Payload = []byte("m")
		}
		// application properties travel with the message: the variants cycle with the publication number
		switch w.npub % 4 {
		case 1:
			m.ContentType = "text/plain"
			m.UserProperties = []packets.UserProperty{{K: []byte("unit"), V: []byte("celsius")}}
		case 2:
			m.ResponseTopic, m.CorrelationData, m.PayloadFormat, m.MessageExpiry = "reply/to", []byte{0, 1, 2}, 1, 3600
			m.UserProperties = []packets.UserProperty{{K: []byte("a"), V: []byte("1")}, {K: []byte("a"), V: []byte("2")}, {K: []byte("b"), V: []byte("")}}
		case 3:
			m.QoS = 2
			m.UserProperties = []packets.UserProperty{{K: []byte(""), V: []byte("")}}
		}
		origin := content(m)
		// what the core does before the hook (server/client.go publishHandler)
		if m.Retained {
			if len(m.Payload) == 0 {
				nd.ret.Remove(m.Topic)
			} else {
				nd.ret.AddOrReplace(m.Copy())
			}
		}
		o := &outcome{dl: map[string]delivery{}}
		opts := defaultOpts(op.T)
		if will {
			req := &server.WillMsgRequest{Message: m, IterationOptions: opts}
			nd.willHook(ctx, "pubclient", req)
			o.drop = req.Message == nil
			opts = req.IterationOptions
		} else {
			req := &server.MsgArrivedRequest{Message: m, IterationOptions: opts}
			if err := nd.msgHook(ctx, &fakeMQTTClient{opts: server.ClientOptions{ClientID: "pubclient"}}, req); err != nil {
				return nil, "OnMsgArrived: " + err.Error()
			}
			o.drop = req.Message == nil
			opts = req.IterationOptions
		}
		switch {
		case opts.TopicName != op.T || opts.MatchType != subscription.MatchFilter || opts.ClientID != "":
			o.opts = fmt.Sprintf("%+v", opts)
		case opts.Type == subscription.TypeAll:
			o.opts = "default"
		case opts.Type == subscription.TypeAll^subscription.TypeShared:
			o.opts = "nonshared"
		default:
			o.opts = fmt.Sprintf("type %d", opts.Type)
		}
		if !o.drop {
			o.dl[nd.name] = deliver(nd.core, opts)
		} else {
			o.dl[nd.name] = delivery{}
		}
		// forwarded events: read the real peer queues, carry them over, watch the receivers
		for _, pn := range nd.f.VerifPeerNames() {
			p := nd.f.VerifPeer(pn)
			evs := p.Queue().Events
			if len(evs) == 0 {
				continue
			}
			o.fwd = append(o.fwd, pn)
			if len(evs) != 1 {
				o.notes = append(o.notes, fmt.Sprintf("%d events queued for %s by one publication", len(evs), pn))
			}
			rcv := w.nodes[pn]
			for _, e := range evs {
				em := e.GetMessage()
				if em == nil || em.TopicName != op.T || em.Retained != m.Retained || string(em.Payload) != string(m.Payload) {
					o.notes = append(o.notes, fmt.Sprintf("event queued for %s is not the publication: %v", pn, e))
				}
				before := len(rcv.pub.msgs)
				ack, ok := rcv.f.VerifEventStreamHandler(nd.name, e)
				if !ok || ack == nil || ack.EventId != e.Id {
					return nil, fmt.Sprintf("eventStreamHandler on %s: ok=%v ack=%v", pn, ok, ack)
				}
				if len(rcv.pub.msgs) != before+1 {
					o.notes = append(o.notes, fmt.Sprintf("%s published %d messages for one message event", pn, len(rcv.pub.msgs)-before))
				} else if pm := rcv.pub.msgs[before]; pm.Topic != op.T || string(pm.Payload) != string(m.Payload) || pm.Retained != m.Retained {
					o.notes = append(o.notes, fmt.Sprintf("%s published a different message: %+v", pn, pm))
				} else if got := content(pm); got != origin {
					o.notes = append(o.notes, fmt.Sprintf("%s published the message with different content: %s, published at %s as %s", pn, got, nd.name, origin))
				}
			}
			p.Ack(evs[len(evs)-1].Id)
			// Publisher.Publish = deliverMessage("", msg, defaultIterateOptions(topic))  (server/publish_service.go)
			o.dl[pn] = deliver(rcv.core, defaultOpts(op.T))
			for _, qn := range rcv.f.VerifPeerNames() {
				if n := len(rcv.f.VerifPeer(qn).Queue().Events); n != 0 {
					o.notes = append(o.notes, fmt.Sprintf("receiver %s queued %d events for %s (re-forwarding)", pn, n, qn))
				}
			}
		}
		sort.Strings(o.fwd)
		return o, ""
	}
	return nil, "unknown op " + op.Op
}

// content renders every application-visible field of a message (what a subscriber of the receiving node gets)
func content(m *gmqtt.Message) string {
	var ups []string
	for _, u := range m.UserProperties {
		ups = append(ups, fmt.Sprintf("%q=%q", u.K, u.V))
	}
	return fmt.Sprintf("topic=%s payload=%q qos=%d retained=%v contenttype=%q response=%q correlation=%x format=%d expiry=%d userprops=%v",
		m.Topic, m.Payload, m.QoS, m.Retained, m.ContentType, m.ResponseTopic, m.CorrelationData, m.PayloadFormat, m.MessageExpiry, ups)
}

func sorted(s []string) []string {
	c := append([]string{}, s...)
	sort.Strings(c)
	return c
}

func seq(a, b []string) bool {
	if len(a) != len(b) {
		return false
	}
	for i := range a {
		if a[i] != b[i] {
			return false
		}
	}
	return true
}

func cfSorted(a []CF) []CF {
	c := append([]CF{}, a...)
	sort.Slice(c, func(i, j int) bool {
		if c[i].C != c[j].C {
			return c[i].C < c[j].C
		}
		return c[i].F < c[j].F
	})
	return c
}

func one(js []byte) {
	var t Trans
	if err := json.Unmarshal(js, &t); err != nil {
		rep.Div("harness", "cannot parse transition: "+err.Error(), js, nil)
		return
	}
	atomic.AddInt64(&rep.N, 1)
	// about a third of the publications go through OnWillPublish; chosen from the transition itself so that a replay
	// of the stored transition takes the same path
	will := t.Op.Op == "pub" && (len(t.Pre)+len(t.Subs)+len(t.Op.T)+int(t.Op.Node[len(t.Op.Node)-1]))%3 == 0
	defer func() {
		if r := recover(); r != nil {
			rep.Div("panic:"+t.Op.Op, fmt.Sprintf("panic while replaying: %v", r), js, nil)
		}
	}()
	w := newWorld()
	for i, op := range t.Pre {
		if _, msg := w.apply(op, false); msg != "" {
			rep.Div("pre:"+op.Op, fmt.Sprintf("step %d (%s) of the prefix: %s", i, op.Op, msg), js, nil)
			return
		}
	}
	o, msg := w.apply(t.Op, will)
	if msg != "" {
		rep.Div("op:"+t.Op.Op, msg, js, nil)
		return
	}
	if len(t.Pre) > 0 {
		atomic.AddInt64(&rep.NonTriv, 1)
	}
	if will {
		atomic.AddInt64(&viaWill, 1)
	}
	via := "OnMsgArrived"
	if will {
		via = "OnWillPublish"
	}
	var diffs []string
	add := func(name string, got, want interface{}) {
		diffs = append(diffs, fmt.Sprintf("%s: real %v, specification %v", name, got, want))
	}
	// ---- outcome of the publication
	if o != nil {
		if !seq(o.fwd, sorted(t.Op.Fwd)) {
			add("forwarded to", o.fwd, sorted(t.Op.Fwd))
		}
		if o.drop != t.Op.Drop {
			add("drop", o.drop, t.Op.Drop)
		}
		if o.opts != t.Op.Opts && !(o.drop && t.Op.Drop) {
			add("IterationOptions", o.opts, t.Op.Opts)
		}
		want := map[string]delivery{}
		for _, d := range t.Op.Dl {
			want[d.Node] = delivery{ns: cfSorted(d.NS), gr: sorted(d.GR)}
		}
		for _, nn := range meta.Nodes {
			g, gok := o.dl[nn]
			x, xok := want[nn]
			if gok != xok {
				add("delivery happens on "+nn, gok, xok)
				continue
			}
			if !reflect.DeepEqual(cfSorted(g.ns), x.ns) && !(len(g.ns) == 0 && len(x.ns) == 0) {
				add("non-shared deliveries on "+nn, g.ns, x.ns)
			}
			if !seq(sorted(g.gr), x.gr) {
				add("share groups served on "+nn, g.gr, x.gr)
			}
		}
		for _, nt := range o.notes {
			diffs = append(diffs, nt)
		}
	}
	// ---- state
	type key struct{ a, b, c string }
	wantSubs := map[key]bool{}
	wantTopics := map[string]map[string]uint64{}
	for _, nn := range meta.Nodes {
		wantTopics[nn] = map[string]uint64{}
	}
	for _, s := range t.Subs {
		wantSubs[key{s.Node, s.C, s.F}] = true
		wantTopics[s.Node][s.F]++
	}
	for _, nn := range meta.Nodes {
		nd := w.nodes[nn]
		got := map[key]bool{}
		nd.core.Iterate(func(c string, s *gmqtt.Subscription) bool {
			got[key{nn, c, s.GetFullTopicName()}] = true
			return true
		}, subscription.IterationOptions{Type: subscription.TypeAll})
		for k := range got {
			if !wantSubs[k] {
				add("core store of "+nn, k, "absent")
			}
		}
		lt := nd.f.VerifLocalTopics()
		if !reflect.DeepEqual(lt, wantTopics[nn]) && !(len(lt) == 0 && len(wantTopics[nn]) == 0) {
			add("localSubStore.topics of "+nn, lt, wantTopics[nn])
		}
		view := nd.f.VerifFedSubs()
		for _, mm := range meta.Nodes {
			if mm == nn {
				continue
			}
			var wv []string
			for f := range wantTopics[mm] {
				wv = append(wv, f)
			}
			sort.Strings(wv)
			if !seq(view[mm], wv) {
				add(fmt.Sprintf("view of %s held by %s", mm, nn), view[mm], wv)
			}
		}
		if len(view[nn]) != 0 {
			add("view of itself held by "+nn, view[nn], "[]")
		}
		// round robin counters
		wr := map[string]uint64{}
		for _, r := range t.RR {
			if r.Node == nn {
				wr[r.F] = uint64(r.K)
			}
		}
		gr := nd.f.VerifSharedSent()
		for k, v := range gr {
			if v == 0 {
				delete(gr, k)
			}
		}
		if !reflect.DeepEqual(gr, wr) && !(len(gr) == 0 && len(wr) == 0) {
			add("sharedSent of "+nn, gr, wr)
		}
		// retained stores
		for _, tp := range meta.Topics {
			want := "<none>"
			for _, r := range t.Ret {
				if r.Node == nn && r.T == tp {
					want = "payload:" + r.P
				}
			}
			got := "<none>"
			if m := nd.ret.GetRetainedMessage(tp); m != nil {
				got = "payload:" + string(m.Payload)
			}
			if got != want {
				add(fmt.Sprintf("retained store of %s, topic %s", nn, tp), got, want)
			}
		}
	}
	for k := range wantSubs {
		nd := w.nodes[k.a]
		found := false
		nd.core.Iterate(func(c string, s *gmqtt.Subscription) bool {
			if c == k.b && s.GetFullTopicName() == k.c {
				found = true
			}
			return true
		}, subscription.IterationOptions{Type: subscription.TypeAll})
		if !found {
			add("core store of "+k.a, "absent", k)
		}
	}
	if len(diffs) > 0 {
		comp := strings.SplitN(diffs[0], ":", 2)[0]
		rep.Div("state:"+t.Op.Op+":"+comp, fmt.Sprintf("after %s (%s) the real objects differ from the specification: %s", t.Op.Op, via,
			strings.Join(diffs, "; ")), js, nil)
		return
	}
	rep.Sample(js, 3)
	if o == nil {
		return
	}
	// ---- C17 on what was observed
	rb := realBad(w, &t.Op, o)
	if len(t.Bad) > 0 {
		atomic.AddInt64(&badSeen, 1)
	}
	for _, b := range t.Bad {
		obs, ok := rb[b]
		if !ok {
			rep.Div("harness", "the model reports "+b+" violated, the evaluation on the real objects does not", js, nil)
			continue
		}
		sig := "C17:" + b
		obs += " [via " + via + "]"
		minMu.Lock()
		if l, ok := minLen[sig]; !ok || len(t.Pre) < l {
			minLen[sig] = len(t.Pre)
			mb, _ := json.Marshal(map[string]interface{}{"what": obs, "line": json.RawMessage(js)})
			minimal[sig] = mb
		}
		minMu.Unlock()
		rep.Div(sig, obs, js, map[string]interface{}{"history_len": len(t.Pre) + 1})
	}
	for k, v := range rb {
		found := false
		for _, b := range t.Bad {
			if b == k {
				found = true
			}
		}
		if !found {
			rep.Div("harness", "real objects violate "+k+" but the model does not say so: "+v, js, nil)
		}
	}
}

// realBad evaluates the clauses of C17 on the observed outcome; the only thing taken from the specification is the
// Match relation (printed once by TLC).
func realBad(w *world, op *Op, o *outcome) map[string]string {
	out := map[string]string{}
	plain := op.Kind == "plain"
	hasNS := map[string]bool{}
	hasAny := map[string]bool{}
	groups := map[string][]string{} // shared full name -> nodes with a member
	for _, nn := range meta.Nodes {
		seen := map[string]bool{}
		w.nodes[nn].core.Iterate(func(c string, s *gmqtt.Subscription) bool {
			full := s.GetFullTopicName()
			if !match[[2]string{full, op.T}] {
				return true
			}
			hasAny[nn] = true
			if s.ShareName == "" {
				hasNS[nn] = true
			} else if !seen[full] {
				seen[full] = true
				groups[full] = append(groups[full], nn)
			}
			return true
		}, subscription.IterationOptions{Type: subscription.TypeAll})
	}
	fwd := map[string]bool{}
	for _, f := range o.fwd {
		fwd[f] = true
	}
	if fwd[op.Node] {
		out["NoEcho"] = "the publication was queued for its own origin " + op.Node
	}
	if plain {
		for _, nn := range meta.Nodes {
			if nn == op.Node {
				continue
			}
			if hasNS[nn] && !fwd[nn] {
				out["ForwardedIffNeeded"] = fmt.Sprintf("%s has a matching non-shared subscription and got nothing (forwarded to %v)", nn, o.fwd)
			}
			if fwd[nn] && !hasAny[nn] {
				out["ForwardedIffNeeded"] = fmt.Sprintf("%s has no matching subscription and was sent the message (forwarded to %v)", nn, o.fwd)
			}
		}
	}
	var gnames []string
	for g := range groups {
		gnames = append(gnames, g)
	}
	sort.Strings(gnames)
	for _, g := range gnames {
		var served []string
		for _, nn := range meta.Nodes {
			for _, x := range o.dl[nn].gr {
				if x == g {
					served = append(served, nn)
				}
			}
		}
		desc := fmt.Sprintf("publication of %q (%s) on %s: share group %s has members on %v and was served on %v (forwarded to %v, drop=%v, options=%s)",
			op.T, op.Kind, op.Node, g, groups[g], served, o.fwd, o.drop, o.opts)
		switch {
		case !plain && len(served) != 1:
			out["GroupOnce:retained"] = desc
		case plain && len(served) == 0:
			out["GroupOnce:starved"] = desc
		case plain && len(served) > 1:
			out["GroupOnce:twice"] = desc
		}
	}
	if !plain {
		for _, nn := range meta.Nodes {
			m := w.nodes[nn].ret.GetRetainedMessage(op.T)
			if nn != op.Node && !fwd[nn] {
				out["RetainedEverywhere"] = fmt.Sprintf("retained publication not sent to %s", nn)
			}
			if op.Kind == "ret" && (m == nil || string(m.Payload) != "m") {
				out["RetainedEverywhere"] = fmt.Sprintf("retained store of %s does not hold the message after a retained publication on %s", nn, op.Node)
			}
			if op.Kind == "clear" && m != nil {
				out["RetainedEverywhere:clear"] = fmt.Sprintf("retained message of %q cleared on %s (empty payload): the retained store of %s still has an entry for it (payload %q)",
					op.T, op.Node, nn, m.Payload)
			}
		}
	}
	return out
}

func matchList() []map[string]string {
	var l []map[string]string
	for k := range match {
		l = append(l, map[string]string{"f": k[0], "t": k[1]})
	}
	sort.Slice(l, func(i, j int) bool { return l[i]["f"]+"|"+l[i]["t"] < l[j]["f"]+"|"+l[j]["t"] })
	return l
}

func main() {
	metaPath := flag.String("meta", "", "pack description (nodes, filters, topics)")
	workers := flag.Int("workers", 0, "")
	raw := flag.Bool("raw", false, "stdin lines are plain JSON (replay) instead of TLA+ string literals")
	flag.Parse()
	b, err := os.ReadFile(*metaPath)
	if err != nil {
		fmt.Fprintln(os.Stderr, err)
		os.Exit(2)
	}
	if err := json.Unmarshal(b, &meta); err != nil {
		fmt.Fprintln(os.Stderr, err)
		os.Exit(2)
	}
	head := func(js []byte) bool {
		if len(js) > 9 && string(js[:9]) == `{"match":` {
			var m struct {
				Match []struct {
					F string `json:"f"`
					T string `json:"t"`
				} `json:"match"`
			}
			if err := json.Unmarshal(js, &m); err != nil {
				fmt.Fprintln(os.Stderr, "bad match table", err)
				os.Exit(2)
			}
			for _, p := range m.Match {
				match[[2]string{p.F, p.T}] = true
			}
			haveTab = true
			return true
		}
		if !haveTab {
			fmt.Fprintln(os.Stderr, "transition before match table")
			os.Exit(2)
		}
		return false
	}
	if err := tc.Each(os.Stdin, *workers, *raw, head, one); err != nil {
		fmt.Fprintln(os.Stderr, err)
		os.Exit(2)
	}
	rep.Summary(map[string]interface{}{"bad_states": atomic.LoadInt64(&badSeen), "minimal": minimal, "via_will": atomic.LoadInt64(&viaWill),
		"match_pairs": len(match), "match": matchList()})
}
