module verifharness

go 1.26.1

require github.com/DrmagicE/gmqtt v0.0.0

require go.uber.org/mock v0.6.0 // indirect

replace github.com/DrmagicE/gmqtt => /repo
