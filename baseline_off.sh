#!/bin/sh
# Runs the repository's test suite with the `verif` build tag OFF and checks that every test of the
# stable baseline (/root/.vp/BASELINE.json) still passes.
export GOFLAGS=-mod=mod GOPROXY=off GOSUMDB=off GOTOOLCHAIN=local
cd "${VERIF_REPO:-/repo}" || exit 2
go1.26 test -json -vet=off -count=1 -timeout 25m ./... > /tmp/verif_baseline_$$.json 2>/dev/null
python3 - /tmp/verif_baseline_$$.json <<'PY'
import json, sys
passed = set()
for line in open(sys.argv[1]):
    try:
        o = json.loads(line)
    except Exception:
        continue
    if o.get("Action") == "pass" and o.get("Test"):
        passed.add(o["Package"] + "::" + o["Test"])
base = json.load(open("/root/.vp/BASELINE.json"))["stable_pass"]
missing = [t for t in base if t not in passed]
print("baseline tests: %d, passed now: %d, missing: %d" % (len(base), len(base) - len(missing), len(missing)))
for t in missing[:50]:
    print("  MISSING", t)
sys.exit(1 if missing else 0)
PY
rc=$?
rm -f /tmp/verif_baseline_$$.json
exit $rc
