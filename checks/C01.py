"""C01 – PUBLISH reaches exactly the matching subscribers, at the right QoS, in order.
Trace validation: scripted clients (independent codec) drive real in-process brokers; the recorded wire traces
are validated by TLC against Broker.tla through TraceBroker.tla; see DESIGN.md §C01."""
import random
import vlib, trace_lib, scen

LEVEL = "model_checking"
INV = ("IdsDistinct", "SubsKeyed", "OneConnPerId")


def run(ctx):
    rng = random.Random(ctx.seed)
    quick = ctx.tier == "quick"
    scs = scen.c01_table(rng, "s%d" % ctx.seed, 120 if quick else 1500)
    scs += scen.c01_concurrent(rng, "s%d" % ctx.seed, 30 if quick else 400)
    ctx.cov["rule"] = ("seeded scenarios: (a) delivery-function tables - random subscription tables (filters x QoS x NL x RAP x id, v3 and v5 "
                       "subscribers), publications from another client / the subscriber itself / the API, both delivery modes, "
                       "barrier via sentinel; (b) concurrent numbered publishers with a static table. Every recorded trace is validated "
                       "line by line by TLC against Broker.tla (obligations, per-pair order, ack pairing); distinct = scenarios with a "
                       "distinct script, non-trivial = at least one delivery obligation was created")
    rejected, stats = trace_lib.validate(ctx, scs, "c01", invariants=INV)
    ctx.cov["traces_validated_against_impl"] += stats["validated"] + stats["rejected"]
    ctx.cov["evaluations"] += stats["events"]
    ctx.cov["distinct_nontrivial"] += stats["scenarios"]
    ctx.cov["scenarios"] = stats
    confirm(ctx, rejected, INV)


def confirm(ctx, rejected, inv, module="TraceBroker", limit=4):
    """re-execute rejected scenarios alone (slow mode for absence-type rejections) and report the confirmed ones;
    at most `limit` are re-executed, the others are reported as recorded"""
    ctx.cov["rejected_scenarios"] = len(rejected)
    for n, r in enumerate(rejected):
        if n >= limit:
            sc = r["scenario"]
            if '"e":"quiet"' in (r.get("event") or ""):
                continue        # absence-type rejections are only reported after a slow-mode confirmation
            ctx.violation("trace of scenario %s rejected at line %s: %s" % (sc["id"], r["line"], (r.get("event") or "")[:300]),
                          {"signature": "trace:" + sig_of(r.get("event")), "kind": "wire-trace", "scenario": sc, "line": r["line"],
                           "event": r.get("event"), "why": r.get("why"), "trace": r["trace"]})
            continue
        ev = r.get("event") or ""
        absence = '"e":"quiet"' in ev
        sc = r["scenario"]
        if absence:
            # absence-type: re-execute in slow mode; report only if the obligation is still unmet
            acc, info = trace_lib.single(ctx, sc, "slow_" + sc["id"], module=module, invariants=inv, slow=True)
            if acc:
                ctx.cov["timing_unconfirmed"] = ctx.cov.get("timing_unconfirmed", 0) + 1
                continue
            r = {"scenario": sc, "trace": info["trace"], "line": info["line"], "event": info.get("event"), "why": info.get("why"),
                 "state": info.get("state")}
        else:
            acc, info = trace_lib.single(ctx, sc, "re_" + sc["id"], module=module, invariants=inv)
            if not acc:
                r = {"scenario": sc, "trace": info["trace"], "line": info["line"], "event": info.get("event"), "why": info.get("why"),
                     "state": info.get("state")}
        what = "trace of scenario %s rejected at line %s: %s -- %s" % (sc["id"], r["line"], (r.get("event") or "")[:300], r.get("why"))
        ctx.violation(what, {"signature": "trace:" + sig_of(r.get("event")), "kind": "wire-trace", "scenario": sc, "line": r["line"],
                             "event": r.get("event"), "why": r.get("why"), "state": r.get("state"), "trace": r["trace"]})
    if ctx.cov.get("timing_unconfirmed", 0) > 5:
        raise vlib.MachineryError("too many timing-dependent rejections (%d): machinery not trustworthy on this machine" % ctx.cov["timing_unconfirmed"])


def sig_of(ev):
    import json
    try:
        e = json.loads(ev)
        return e.get("e", "?")
    except Exception:
        return "?"
