"""C01 – PUBLISH reaches exactly the matching subscribers, at the right QoS, in order.
Trace validation: scripted clients (independent codec) drive real in-process brokers; the recorded wire traces
are validated by TLC against Broker.tla through TraceBroker.tla; see DESIGN.md §C01."""
import random
import vlib, trace_lib, scen, brokerop_lib

LEVEL = "model_checking"
INV = ("IdsDistinct", "SubsKeyed", "OneConnPerId")


def run(ctx):
    rng = random.Random(ctx.seed)
    quick = ctx.tier == "quick"
    scs = scen.c01_table(rng, "s%d" % ctx.seed, 120 if quick else 1500)
    scs += scen.c01_concurrent(rng, "s%d" % ctx.seed, 30 if quick else 400)
    scs = scen.with_props(rng, scs)       # application properties travel with the message unaltered (v5 subscribers)
    ctx.cov["rule"] = ("seeded scenarios: (a) delivery-function tables - random subscription tables (filters x QoS x NL x RAP x id, v3 and v5 "
                       "subscribers), publications from another client / the subscriber itself / the API, both delivery modes, "
                       "barrier via sentinel; (b) concurrent numbered publishers with a static table. Every recorded trace is validated "
                       "line by line by TLC against Broker.tla (obligations, per-pair order, ack pairing); distinct = scenarios with a "
                       "distinct script, non-trivial = at least one delivery obligation was created")
    # design level: the operational delivery rules refine the declarative obligations (TLC, exhaustive in the bound)
    if quick:
        packs = sorted(brokerop_lib.FILTERS)
        brokerop_lib.run(ctx, packs[ctx.seed % len(packs)], ["overlap", "onlyonce"][ctx.seed % 2])
    else:
        for pack in sorted(brokerop_lib.FILTERS):
            for mode in ("overlap", "onlyonce"):
                brokerop_lib.run(ctx, pack, mode, nopts=3, pubqos=(0, 1, 2), timeout=3000)
    rejected, stats = trace_lib.validate(ctx, scs, "c01", invariants=INV)
    ctx.cov["traces_validated_against_impl"] += stats["validated"] + stats["rejected"]
    ctx.cov["evaluations"] += stats["events"]
    ctx.cov["distinct_nontrivial"] += stats["scenarios"]
    ctx.cov["scenarios"] = stats
    trace_lib.confirm(ctx, rejected, INV)


