"""./check setup – build the harness once (plain and -race) and syntax-check every specification with SANY."""
import os, subprocess, sys
import vlib


def main():
    try:
        vlib.go_build(race=False)
    except vlib.MachineryError as e:
        print(e)
        return 2
    bad = 0
    for f in sorted(os.listdir(vlib.SPEC)):
        if not f.endswith(".tla"):
            continue
        r = subprocess.run(["java", "-cp", vlib.TLA_CP, "tla2sany.SANY", f], cwd=vlib.SPEC, stdout=subprocess.PIPE,
                           stderr=subprocess.STDOUT, text=True)
        ok = r.returncode == 0 and "Error" not in r.stdout
        print("sany %-20s %s" % (f, "ok" if ok else "FAILED"))
        if not ok:
            print(r.stdout[-2000:])
            bad += 1
    return 2 if bad else 0
