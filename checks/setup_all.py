"""./check setup – build the harness drivers once and syntax-check the specifications with SANY.
Every check rebuilds what it needs from the current /repo tree anyway, so a driver or spec that is still being
worked on (not used by a registered check) only produces a warning here."""
import os, subprocess, sys
import vlib


def main():
    h = os.path.join(vlib.VERIF, "harness")
    core_bad = 0
    for d in sorted(os.listdir(os.path.join(h, "cmd"))):
        try:
            vlib.go_build(race=False, pkgs="./cmd/" + d)
        except vlib.MachineryError as e:
            print("WARNING: driver cmd/%s does not build: %s" % (d, str(e)[-400:]))
            if d in ("wire", "substore", "topicmatch"):
                core_bad += 1
    bad = 0
    for f in sorted(os.listdir(vlib.SPEC)):
        if not f.endswith(".tla"):
            continue
        r = subprocess.run(["java", "-cp", vlib.TLA_CP, "tla2sany.SANY", f], cwd=vlib.SPEC, stdout=subprocess.PIPE,
                           stderr=subprocess.STDOUT, text=True)
        ok = r.returncode == 0 and "Error" not in r.stdout
        print("sany %-20s %s" % (f, "ok" if ok else "WARNING: does not parse"))
        if not ok and f in ("Topics.tla", "Broker.tla", "TraceBroker.tla", "SubStore.tla"):
            bad += 1
    return 2 if (bad or core_bad) else 0
