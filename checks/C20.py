"""C20 - statistics are conserved.
(1) Design level: TLC checks the conservation invariants of spec/Stats.tla (global accumulator = sum of live per-client
    records + retired totals; session/connection totals account for the sessions that exist; global gauges = sum of the
    queues' contents; the demanded snapshot is itself conserved) on every event sequence over a small alphabet
    (spec/StatsEnv.tla), once for the specification proper and once with the deviations of the open known findings.
(2) Binding: seeded workloads run on the real broker (wire driver, hooks on); every `stats` snapshot, taken at a
    quiescent point, must equal what spec/TraceStats.tla computes from the trace (packets/bytes per type and client,
    messages per QoS, drops per reason, queue gauges, session gauges, global = sum)."""
import random, threading
import vlib, stats_lib, stats_scen

LEVEL = "model_checking"


def run(ctx):
    rng = random.Random(ctx.seed)
    quick = ctx.tier == "quick"
    sid = "s%d" % ctx.seed
    ctx.cov["rule"] = ("design level: all event sequences of <= %d events over 2 client ids x 3 connections x {PINGREQ in, PINGRESP out, PUBLISH in/out QoS 0/1, "
                       "enqueue, ack, drop full/expired-in-flight, register, unregister, terminated x 3 reasons, late packets of displaced connections}; "
                       "binding: seeded scenarios - mixed workloads (2-4 clients v3.1/v3.1.1/v5, all packet types of accepted connections, QoS 0/1/2 both "
                       "directions, manual acks, small windows, offline queueing, resume, take-over, clean start over a stored session, TerminateSession, abort), "
                       "PUBLISH sizes on the boundaries of the Remaining Length encoding (127/128, 16383/16384; both versions, both directions), one family per drop reason (queue full with the subscriber offline / window-blocked / every copy in flight, expired by configuration / by publisher, oversize%s), "
                       "sessions ending while holding messages, client AUTH%s; every snapshot is compared field by field (global and every client id used); "
                       "non-trivial = scenarios with >= 1 snapshot" % (6 if quick else 8, "" if quick else ", expired in flight after the 30 s inflight_expiry", "" if quick else ", the 20 s session expiry sweep"))
    ctx.assumptions += [
        "hook events register/unregister/terminated/enqueue are logged under srv.mu (their order is the broker's order)",
        "snapshots are taken after barrier + 80 ms settle; a mismatch that does not reproduce in slow mode (1 s settle) is counted as timing_unconfirmed",
        "connections end only right after a snapshot, so no byte written by the broker goes unread; no RETAIN (the retained replay enqueues without an enqueue event)",
        "QueuedCurrent is read as the number of copies held by the session queue (unread + in flight), InflightCurrent as the handed-out unacknowledged ones",
        "refused connections and broker-sent AUTH are not exercised (the wire driver cannot install an enhanced-auth hook); subscription statistics are not part of the property",
        "memory persistence only (restart with persisted sessions is not exercised)"]
    devs = [k["deviation"] for k in stats_lib.open_deviations(ctx)]
    # (1) design level, in the background while the scenarios run
    steps = 6 if quick else 8
    design = {}
    errors = []

    def bg(key, n, dv):
        try:
            design[key] = stats_lib.design_level(ctx, n, devs=dv, workers=4 if quick else 8)
        except Exception as e:      # noqa
            errors.append(e)
    ths = [threading.Thread(target=bg, args=("proper", steps, ()))]
    if devs:
        ths.append(threading.Thread(target=bg, args=("deviations", steps - 1, tuple(devs))))
    for t in ths:
        t.start()
    # (2) binding (small targeted families first: the attribution passes stop at the first occurrence)
    scs = []
    if not quick:
        # real seconds: the 20 s session expiry sweep, the 30 s in-flight expiry (started first, they run alongside the rest)
        scs += stats_scen.lifecycle(rng, sid + "x", 8, expiry_wait=True)
        scs += stats_scen.drops(rng, sid + "i", 8, inflight_wait=True)
    scs += stats_scen.all_packets(rng, sid)
    scs += stats_scen.sizes(rng, sid)
    scs += stats_scen.auth(rng, sid, 3 if quick else 20)
    scs += stats_scen.lifecycle(rng, sid, 18 if quick else 240)
    scs += stats_scen.drops(rng, sid, 20 if quick else 300)
    scs += stats_scen.mixed(rng, sid, 36 if quick else 700)
    rejected, stats = stats_lib.validate(ctx, scs, "c20", par=48 if quick else 64, jvms=3 if quick else 8)
    for t in ths:
        t.join()
    if errors:
        raise errors[0]
    r0 = design["proper"]
    ctx.cov["design_level"] = {"steps": steps, "states": r0.distinct, "transitions": r0.generated}
    if devs:
        ctx.cov["design_level_with_deviations"] = {"deviations": devs, "steps": steps - 1, "states": design["deviations"].distinct}
    ctx.cov["traces_validated_against_impl"] += stats["validated"] + stats["rejected"]
    ctx.cov["evaluations"] += stats["snapshots"]
    ctx.cov["distinct_nontrivial"] += stats["scenarios"]
    needs = stats.pop("needs")
    ctx.cov["scenarios"] = stats
    stats_lib.confirm(ctx, rejected, needs, limit=4 if quick else 8)
