"""C05 – session lifecycle: resume iff it should, and one connection per client id.
Timed trace validation against Broker.tla (ResumeVerdicts, ConnEnd/expireAt, ApiTerminate, Attach) with the broker's own
register / unregister / closed events in the trace (at most one registered connection per id; the displaced connection
has finished before the newer one is registered); sequential take-overs and storms of simultaneous CONNECTs."""
import random
import vlib, trace_lib, scen

LEVEL = "model_checking"
INV = ("IdsDistinct", "SubsKeyed", "OneConnPerId")


def run(ctx):
    rng = random.Random(ctx.seed)
    quick = ctx.tier == "quick"
    ctx.cov["rule"] = ("seeded scenarios: (a) matrix v3.1/v3.1.1/v5 x clean x expiry {0,1,3,1000 s; configured 1,3,7200 s} x connection duration (short / longer than "
                       "the expiry) x end {DISCONNECT, DISCONNECT with new expiry, abort, TerminateSession} x reconnect before / after the expiry (>= 500 ms "
                       "away) with a message published while offline and one after; (b) sequential take-overs (v3/v5, clean or not); (c) storms of 2-6 "
                       "simultaneous CONNECTs on one client id, with and without a stored offline session; (d) scenarios that live through the 20 s expiry sweep "
                       "(a resumed, connected session survives it; an offline one past its expiry is gone). TLC validates Session Present, state intact "
                       "(subscriptions route, queued QoS1 delivered) and, from the broker's register/unregister/closed events, at most one registered "
                       "connection per id and displaced-closed-before-registered; non-trivial = all scenarios")
    ctx.assumptions += ["real seconds; decisive instants >= 500 ms from deadlines; WinMs = 450 ms either verdict allowed inside the window",
                        "hook events are logged under srv.mu (their order is the broker's order)"]
    scs = scen.c05_sweeper(rng, "s%d" % ctx.seed, 4 if quick else 16) + scen.c05_sessions(rng, "s%d" % ctx.seed, 150 if quick else 1500)
    rejected, stats = trace_lib.validate(ctx, scs, "c05", invariants=INV, par=40)
    ctx.cov["traces_validated_against_impl"] += stats["validated"] + stats["rejected"]
    ctx.cov["evaluations"] += stats["events"]
    ctx.cov["distinct_nontrivial"] += stats["scenarios"]
    ctx.cov["scenarios"] = stats
    trace_lib.confirm(ctx, rejected, INV, limit=6)
