"""C05 – session lifecycle: resume iff it should, and one connection per client id.
Timed trace validation against Broker.tla (ResumeVerdicts, ConnEnd/expireAt, ApiTerminate, Attach) with the broker's own
register / unregister / closed events in the trace (at most one registered connection per id; the displaced connection
is closed before the newer one is registered / acknowledged); sequential take-overs, storms of simultaneous CONNECTs and
schedule gating: TakeOver.tla (lockDuplicatedID / registerClient / teardown at the grain of the code) is model-checked
(OneLive, DisplacedClosedFirst, termination) and every schedule it admits - the order of arrivals and gate releases of N
simultaneous CONNECTs on one client id, N = 2 exhaustively, N = 3 per parameter vector - is forced on the real broker
through the blocking gate hooks; the recorded traces are validated like all others."""
import random
import vlib, trace_lib, scen
import takeover_lib as tk

LEVEL = "model_checking"
INV = ("IdsDistinct", "SubsKeyed", "OneConnPerId")


def run(ctx):
    rng = random.Random(ctx.seed)
    quick = ctx.tier == "quick"
    ctx.cov["rule"] = ("seeded scenarios: (a) matrix v3.1/v3.1.1/v5 x clean x expiry {0,1,3,1000 s; configured 1,3,7200 s} x connection duration (short / longer than "
                       "the expiry) x end {DISCONNECT, DISCONNECT with new expiry, abort, TerminateSession} x reconnect before / after the expiry (>= 500 ms "
                       "away) with a message published while offline and one after; (b) sequential take-overs (v3/v5, clean or not); (c) storms of 2-6 "
                       "simultaneous CONNECTs on one client id, with and without a stored offline session; (d) scenarios that live through the 20 s expiry sweep "
                       "(a resumed, connected session survives it; an offline one past its expiry is gone). TLC validates Session Present, state intact "
                       "(subscriptions route, queued QoS1 delivered) and, from the broker's register/unregister/closed events, at most one registered "
                       "connection per id, the socket of a displaced connection closed before the next one is registered, and (wire level) the end of every "
                       "older connection readable when a CONNACK is read; (e) schedule gating: every schedule of TakeOver.tla for 2 simultaneous "
                       "CONNECTs x 16 parameter vectors (clean, expiry) x {no session, offline session, online expiry>0, online expiry 0} and for 3 "
                       "simultaneous CONNECTs (%s) forced through the gate hooks; non-trivial = all scenarios" % ("1 seeded parameter vector, 500 seeded schedules" if quick else "4 seeded parameter vectors, all schedules"))
    ctx.assumptions += ["real seconds; decisive instants >= 500 ms from deadlines; WinMs = 450 ms either verdict allowed inside the window",
                        "hook events are logged under srv.mu (their order is the broker's order)"]
    # ---- unbounded number of steps, 5 connections: Apalache discharges the inductive invariant of the take-over protocol
    ind = {}

    def inductive():
        ind["init"] = ctx.apalache("TakeOverInd", "Init", "IndInv", 0)
        ind["step"] = ctx.apalache("TakeOverInd", "IndInv", "IndInv", 1)
    import threading
    ith = threading.Thread(target=inductive)
    ith.start()
    # ---- schedule gating: every interleaving of simultaneous CONNECTs at gate granularity (TakeOver.tla)
    res2, sch2 = tk.run_model(ctx, 2, tk.PRES, tk.all_pars(2), workers=4)
    if res2.violation or res2.rc != 0:
        raise vlib.MachineryError("design-level check of TakeOver.tla (N=2) failed:\n" + (res2.violation or "\n".join(res2.tail[-15:])))
    nvec = 1 if quick else 4
    res3, sch3 = tk.run_model(ctx, 3, tk.PRES, rng.sample(tk.all_pars(3), nvec), workers=8, liveness=quick, name="TakeOver_n3")
    if res3.violation or res3.rc != 0:
        raise vlib.MachineryError("design-level check of TakeOver.tla (N=3) failed:\n" + (res3.violation or "\n".join(res3.tail[-15:])))
    n3 = len(sch3)
    if quick:
        sch3 = rng.sample(sch3, min(len(sch3), 500))
    gated = [tk.to_scenario("s%d" % ctx.seed, i, s, rng) for i, s in enumerate(sch2 + sch3)]
    design = {"N2": {"states": res2.distinct, "schedules": len(sch2), "parameter_vectors": 16},
              "N3": {"states": res3.distinct, "schedules": n3, "parameter_vectors": nvec, "executed": len(sch3)}}
    if not quick:
        caught = {}
        for m in ("no_recheck", "relock_window"):
            r = tk.run_model(ctx, 2, tk.PRES, tk.all_pars(2), mutant=m, dump=False, workers=4)[0]
            caught[m] = bool(r.violation and "OneLive" in r.violation)
        design["mutant_violates_OneLive"] = caught
        if not all(caught.values()):
            raise vlib.MachineryError("self-test: a mutant of TakeOver.tla does not violate OneLive: %s" % caught)
    ith.join()
    if "error" in ind.values():
        raise vlib.MachineryError("TakeOverInd.tla: IndInv is not inductive (model bug): %s" % ind)
    design["inductive_invariant_apalache"] = {"module": "TakeOverInd.tla", "connections": 5, "Init=>IndInv": ind.get("init"),
                                              "IndInv/\\Next=>IndInv'": ind.get("step"),
                                              "implies": "OneLive, StoredWhenOnline for behaviours of any length, all parameter vectors and initial situations"}
    ctx.cov["takeover_model"] = design
    rejected_g, stats_g = trace_lib.validate(ctx, gated, "c05gate", invariants=INV, par=32)
    ctx.cov["traces_validated_against_impl"] += stats_g["validated"] + stats_g["rejected"]
    ctx.cov["evaluations"] += stats_g["events"]
    ctx.cov["distinct_nontrivial"] += stats_g["scenarios"]
    ctx.cov["gated_schedules"] = stats_g
    steps = stats_g.get("sched_followed", 0) + stats_g.get("sched_diverged", 0)
    if not rejected_g and steps and stats_g.get("sched_diverged", 0) * 20 > steps:
        # the code does not stop at the gates where TakeOver.tla says it does although every trace is explained: the model of
        # the schedule no longer describes the code (machinery trouble, not a verdict)
        raise vlib.MachineryError("%d of %d gate releases did not find the connection where TakeOver.tla predicts (e.g. %s)"
                                  % (stats_g["sched_diverged"], steps, stats_g.get("sched_diverged_scenarios", [])[:3]))
    trace_lib.confirm(ctx, rejected_g, INV, limit=4)
    # ---- free-running scenarios
    scs = scen.c05_sweeper(rng, "s%d" % ctx.seed, 4 if quick else 16) + scen.c05_sessions(rng, "s%d" % ctx.seed, 150 if quick else 1500)
    rejected, stats = trace_lib.validate(ctx, scs, "c05", invariants=INV, par=40)
    ctx.cov["traces_validated_against_impl"] += stats["validated"] + stats["rejected"]
    ctx.cov["evaluations"] += stats["events"]
    ctx.cov["distinct_nontrivial"] += stats["scenarios"]
    ctx.cov["scenarios"] = stats
    trace_lib.confirm(ctx, rejected, INV, limit=6)
