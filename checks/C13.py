"""C13 – limits negotiated at CONNECT hold in both directions for every valid config.
AliasFifo.tla transition-coverage replay of the outbound alias manager; trace validation of boundary scenarios
(client Maximum Packet Size / Topic Alias Maximum outbound; broker Topic Alias Maximum / Receive Maximum / Maximum
Packet Size inbound, over validator-accepted configurations) against Broker.tla."""
import random
import vlib, aliasfifo_lib, trace_lib, scen

LEVEL = "model_checking"
INV = ("IdsDistinct", "SubsKeyed", "OneConnPerId")


def run(ctx):
    rng = random.Random(ctx.seed)
    quick = ctx.tier == "quick"
    ctx.cov["rule"] = ("alias manager: TLC enumerates all topic sequences up to length L over 4 topics for max in {1,2,3} (AliasFifo.tla), every answer of the "
                       "real fifo manager judged by the client-view rule; limits: seeded boundary scenarios in five families (outbound size at M-1/M/M+1, "
                       "outbound aliases, inbound alias 1..max / 0 / max+1 / 65535 / unbound with rebinding, inbound QoS2 held open up to Receive Maximum / +1, "
                       "inbound size at max-1/max/max+1) over configurations accepted by the validator; traces validated by TLC against Broker.tla "
                       "(compliant client never disconnected, offender disconnected with 0x94/0x93/0x95); non-trivial = a boundary was probed")
    summary, divs = aliasfifo_lib.run(ctx, ctx.tier)
    vlib.log("[C13] alias manager: %d answers judged, %d divergences" % (summary["n"], summary["divergences"]))
    seen = set()
    for d in divs:
        if d["signature"] in seen:
            continue
        seen.add(d["signature"])
        ctx.violation(d["what"], {"signature": d["signature"], "kind": "aliasfifo", "line": d.get("line"), "extra": d.get("extra")})
    scs = scen.c13_limits(rng, "s%d" % ctx.seed, 150 if quick else 2000)
    rejected, stats = trace_lib.validate(ctx, scs, "c13", invariants=INV)
    ctx.cov["traces_validated_against_impl"] += stats["validated"] + stats["rejected"]
    ctx.cov["evaluations"] += stats["events"]
    ctx.cov["distinct_nontrivial"] += stats["scenarios"]
    ctx.cov["scenarios"] = stats
    trace_lib.confirm(ctx, rejected, INV, limit=6)
