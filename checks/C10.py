"""C10 – session message queue (memory and redis back-ends): bounded, FIFO, conserving, drops by the documented priority,
counters equal contents.  Queue.tla is checked against its design-level obligations by TLC; then TLC enumerates
every (state, operation) pair per configuration and each one is replayed on a fresh mem.New / redis.New queue with a recording
Notifier (result, Notifier calls, probe sequence); see DESIGN.md §C10, App. B.1.

  ./check C10 quick|thorough            VERIF_SEED selects menus / in-flight expiry settings / capacities
  ./check C10 quick --replay <file>     re-executes the stored transition verbosely
"""
import json, os, subprocess
import vlib, queue_lib

LEVEL = "model_checking"


def mk(name, mx, ie, nmsg, rdmax=2):
    return {"name": name, "menu": queue_lib.MENUS[name], "max": mx, "ie": ie, "nmsg": nmsg, "ids": [1, 2, 3],
            "rdmax": rdmax, "rins": [1, 2]}


def mkredis(name, mx, ie, nmsg, reinit="new"):
    """redis back-end over the in-process RESP fake; re-initialisation = a new Queue object on the same key (reinit=new), the
    same object (reinit=same), or reinit=restart: the object is replaced right after every Close - the broker restarts while
    the session is offline, server.New builds a Queue over the stored key and messages are added to it before any Init; the
    model then generates only Add and Init after a Close.  Ladder rule 1 in its literal reading (any expired in-flight
    entry), which is the one redis.go follows"""
    c = mk(name, mx, ie, nmsg)
    c.update(target="redis", reinit=reinit, rule1="any")
    return c


# redis, capacity 2, 3 messages (measured): 6 000 (size/off) .. 30 000 transitions; 4 messages: 27 000 .. 62 000
REDIS_QUICK = [("expiry0", "instant"), ("size", "off"), ("rel", "instant"), ("expiry0", "never"), ("size", "instant")]


# measured on the unchanged tree (transitions emitted, ids 1..3, ReadInflight(1|2)):
#   capacity 2, 4 messages, id lists <= 2:  14 000 (size/off) .. 108 000 (expiry/instant) per configuration
#   capacity 2, 4 messages, id lists <= 3:  14 000 .. 115 000;  all 21 configurations together 1.1 million
#   capacity 3, 4 messages, id lists <= 2:  32 000 .. 365 000;  all 21 together 3.5 million
#   capacity 3, 5 messages, id lists <= 2:  3-kind menu 160 000 .. 480 000; 4-kind menus from 235 000 (mixed/off)
SMALL3 = [("expiry0", "off"), ("expiry0", "instant"), ("expiry0", "never"), ("size", "off"), ("size", "instant"),
          ("size", "never"), ("rel", "off"), ("mixed", "off"), ("rel", "never"), ("qos", "off")]   # capacity 3: <= 140 000


def plan(tier, seed):
    names = sorted(queue_lib.MENUS)
    ies = queue_lib.IES
    if tier == "quick":
        # three menus (rotating with the seed), each with a different in-flight expiry setting; capacity 2, 4 messages;
        # one small capacity-3 configuration; design-level check of one configuration
        tc = []
        for k in range(3):
            n = names[(seed * 3 + k) % len(names)]
            tc.append(mk(n, 2, ies[(seed + k) % 3], 4))
        n3, ie3 = SMALL3[seed % len(SMALL3)]
        tc.append(mk(n3, 3, ie3, 4))
        rn, rie = REDIS_QUICK[seed % len(REDIS_QUICK)]
        tc.append(mkredis(rn, 2, rie, 3, reinit=["new", "restart", "same"][seed % 3]))
        # and always one redis configuration in which in-flight entries are re-written when they are replayed (in-flight expiry
        # "never") with re-initialisation on a new / the same object
        tc.append(mkredis("qos", 2, "never", 3, reinit=["new", "same"][seed % 2]))
        design = [mk(names[seed % len(names)], 2, ies[seed % 3], 3)]      # 3 messages: ~10^5 transitions
        return design, tc
    tc, design = [], []
    for i, n in enumerate(names):
        for j, ie in enumerate(ies):
            tc.append(mk(n, 2, ie, 4, rdmax=3))
            tc.append(mk(n, 3, ie, 4))
        design.append(mk(n, 2, ies[(i + seed) % 3], 4))
    design.append(mk(names[seed % len(names)], 3, ies[(seed + 1) % 3], 4))
    # 5 messages at capacity 3: the 3-kind menu with every setting, one seed-chosen 4-kind menu with one setting
    for ie in ies:
        tc.append(mk("rel", 3, ie, 5))
    big = [n for n in names if n != "rel"]
    tc.append(mk(big[seed % len(big)], 3, ["off", "never"][seed % 2], 5))     # "instant" at this size: > 1.5 million
    # redis: every menu and setting with 3 messages (new object per Init), two menus with 4 messages, and a seed-chosen
    # third of the small ones again with Init on the same object
    for i, n in enumerate(names):
        for j, ie in enumerate(ies):
            tc.append(mkredis(n, 2, ie, 3))
            if (i + j + seed) % 3 == 0:
                tc.append(mkredis(n, 2, ie, 3, reinit="same"))
    for ie in ies:
        tc.append(mkredis("expiry0", 2, ie, 4))
        tc.append(mkredis("rel", 2, ie, 4))
        tc.append(mkredis("rel", 2, ie, 3, reinit="restart"))
    tc.append(mkredis("expiry0", 2, "instant", 4, reinit="restart"))
    tc.append(mkredis(names[seed % len(names)], 2, ies[(seed + 1) % 3], 3, reinit="restart"))
    design.append(dict(mk(names[(seed + 2) % len(names)], 2, "instant", 4), rule1="any"))
    return design, tc


def sig_of(cfg, sig):
    """signatures of the redis back-end are distinct from those of the memory back-end (same shapes, different code)"""
    return sig if cfg.get("target", "mem") == "mem" else "redis:" + sig


def replay(ctx):
    with open(ctx.replay) as fh:
        obj = json.load(fh)
    cfg = obj["config"]
    bindir = ctx.go_build(["./cmd/queuemem"])
    cmd = [os.path.join(bindir, "queuemem"), "-max", str(cfg["max"]), "-ie", cfg["ie"], "-raw", "-v", "-workers", "1",
           "-target", cfg.get("target", "mem"), "-reinit", cfg.get("reinit", "new")]
    r = subprocess.run(cmd, input=json.dumps(obj["transition"]) + "\n", stdout=subprocess.PIPE, stderr=subprocess.PIPE, text=True, timeout=60)
    vlib.log("[C10] replay of %s (%s)" % (ctx.replay, obj.get("history", "")))
    for l in r.stderr.splitlines():
        vlib.log(l)
    n = 0
    for l in r.stdout.splitlines():
        o = json.loads(l)
        if o["kind"] == "div":
            n += 1
            ctx.violation(o["what"], {"signature": sig_of(cfg, o["signature"]), "kind": "queue-transition", "config": cfg,
                                      "transition": o.get("line"), "history": o.get("extra", {}).get("history"),
                                      "target": cfg.get("target", "mem")})
    ctx.cov["rule"] = "replay of one stored transition"
    ctx.cov["evaluations"] = 1
    ctx.cov["traces_validated_against_impl"] = 1
    vlib.log("[C10] replay: %d divergences" % n)


def run(ctx):
    if getattr(ctx, "replay", None):
        return replay(ctx)
    ctx.cov["rule"] = (
        "Queue.tla (functional style: DoAdd/DoRead/DoReadInflight/DoRemove/DoReplace/DoInit/DoClose) is model-checked against "
        "its design-level obligations (length <= max; counters = contents; one fate per message, forward only; FIFO and id "
        "assignment of every Read; nothing expired/oversize handed out; the drop ladder stated independently of DoAdd; replay "
        "after Init(not clean) = the in-flight entries with their ids).  Then every (state, operation) pair reachable within "
        "the bound is replayed on a fresh real mem.New (or redis.New over the RESP fake) queue (prefix = BFS path) and compared: value/error returned, "
        "Notifier drops with reasons, sums of the Notifier deltas, expiry class of returned elements, and the probe "
        "Close; Init(not clean); ReadInflight until empty; Read(8 ids) while the model says something is unread.  "
        "Transitions whose prefix already diverged in a returned value or drop are skipped (that divergence is reported by "
        "the transition whose operation it is).  non-trivial = non-empty prefix")
    ctx.assumptions += [
        "memory back-end (mem.New) and redis back-end (redis.New over the in-process RESP fake verifharness/resp, whose command "
        "semantics are part of the trusted base); redis: re-initialisation on a new Queue object over the same key, or on the same object",
        "bounded: capacity 2..3, at most 4..5 added messages, packet ids 1..3, id lists of length <= 2..3, ReadInflight(1|2)",
        "operation sequences inside the documented usage protocol: Read only after a ReadInflight returned nothing since the "
        "last Init and only when it would not block; Remove/Replace only for ids handed out since the last Init (Replace only "
        "for a QoS2 PUBLISH); Init only after Close; ids supplied to Read are distinct and not in flight; Add elements are PUBLISH",
        "time is not advanced: Expiry 24h in the past / 24h in the future / zero; InflightExpiry 0 / 1ns / 1h; oversize = payload 3x ReadBytesLimit",
        "drop ladder rung 1: an implementation may inspect only the oldest entry (weakest reading of 'an expired in-flight entry', what "
        "mem does) or sacrifice the first expired in-flight entry wherever it is (literal reading, what redis does); each back-end is "
        "checked against the reading it follows; which of several "
        "expired / QoS0 queued messages is sacrificed: the first; Init(clean) owes counter deltas but no per-message drop report",
        "Read examines at most len(ids) elements (dropped ones included), as the interface comment 'batch <= id list' allows",
    ]
    design, tc = plan(ctx.tier, ctx.seed)
    ctx.go_build(["./cmd/queuemem"])
    best = {}
    counts = {}
    # two pipelines at a time (TLC with 8 workers each, plus the replayer); the big configurations first
    tc.sort(key=lambda c: (-c["nmsg"], -c["max"]))
    tasks = [("tc", c) for c in tc[:1]] + [("design", c) for c in design] + [("tc", c) for c in tc[1:]]

    def work(task):
        kind, cfg = task
        if kind == "design":
            r = queue_lib.design_check(ctx, cfg)
            vlib.log("[C10] design-level %-24s states=%d transitions=%d depth=%d %.1fs" % (
                queue_lib.cfg_name(cfg), r.distinct, r.generated, r.depth, r.wall))
            return kind, cfg, r
        summary, divs, rec = queue_lib.run_pack(ctx, cfg)
        vlib.log("[C10] replay %-24s states=%d transitions=%d divergent=%d skipped(prefix diverged)=%d %.1fs" % (
            queue_lib.cfg_name(cfg), rec["states"], summary["n"], summary["divergences"],
            summary.get("tainted_prefix", 0), rec["wall_s"]))
        return kind, cfg, (summary, divs, rec)

    from concurrent.futures import ThreadPoolExecutor
    with ThreadPoolExecutor(max_workers=2) as ex:
        done = list(ex.map(work, tasks))
    for kind, cfg, r in done:
        if kind == "design":
            continue
        summary, divs, rec = r
        for k, v in summary["counters"].items():
            if k.startswith("div:"):
                counts[sig_of(cfg, k[4:])] = counts.get(sig_of(cfg, k[4:]), 0) + v
        for d in divs:
            steps = d.get("extra", {}).get("steps", 999)
            sig = sig_of(cfg, d["signature"])
            cur = best.get(sig)
            if cur is None or steps < cur[0]:
                best[sig] = (steps, d, cfg)
    ctx.cov["divergence_signatures"] = {k: counts[k] for k in sorted(counts)}
    for sig in sorted(best):
        steps, d, cfg = best[sig]
        what = d["what"] if cfg.get("target", "mem") == "mem" else "[redis back-end] " + d["what"]
        ctx.violation(what, {"signature": sig, "kind": "queue-transition", "config": cfg, "transition": d.get("line"),
                             "history": d.get("extra", {}).get("history"), "occurrences": counts.get(sig),
                             "target": cfg.get("target", "mem")},
                      name="".join(c if c.isalnum() else "_" for c in sig)[:80])
    ctx.cov["exhaustive"] = True
