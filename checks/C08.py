"""C08 – the will message is published exactly when, and only when, it should be.
Timed trace validation against Broker.tla (WillAtEnd / WillAtResume / WillAtSessionEnd / WillFire / Quiet) with the
broker's own `will` publication event in the trace and an independent watcher on the will topic."""
import random
import vlib, trace_lib, scen

LEVEL = "model_checking"
INV = ("IdsDistinct", "SubsKeyed", "OneConnPerId")


def run(ctx):
    rng = random.Random(ctx.seed)
    quick = ctx.tier == "quick"
    ctx.cov["rule"] = ("seeded timed scenarios: will {QoS 0/1/2, retain, delay 0/1/2 s, v3.1.1/v5} x ending {DISCONNECT 0x00, DISCONNECT 0x04, socket close, "
                       "malformed packet, keep-alive timeout, take-over with Clean Start 0/1, TerminateSession} x session expiry {0,1,5 s} x reconnect {none, "
                       "before, after the delay}; TLC validates: published once (the broker's publication event + delivery to a watcher with QoS/RETAIN per "
                       "its subscription), not before min(delay, expiry) after the end (200 ms early tolerance), by 900 ms after, never after DISCONNECT 0x00 "
                       "nor after a resume before the delay; non-trivial = all scenarios")
    scs = scen.with_props(rng, scen.c08_wills(rng, "s%d" % ctx.seed, 160 if quick else 1600), prob=0.5)   # will properties
    rejected, stats = trace_lib.validate(ctx, scs, "c08", invariants=INV, par=40)
    ctx.cov["traces_validated_against_impl"] += stats["validated"] + stats["rejected"]
    ctx.cov["evaluations"] += stats["events"]
    ctx.cov["distinct_nontrivial"] += stats["scenarios"]
    ctx.cov["scenarios"] = stats
    trace_lib.confirm(ctx, rejected, INV, limit=6)
