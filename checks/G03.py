"""G03 (growth beyond the listed properties; not in MANIFEST.json, raises no VIOLATION line): enhanced authentication and
re-authentication (MQTT 5 section 4.12) as a state machine.  spec/EnhAuth.tla defines, for every case (handler installed or
not, Authentication Method in CONNECT or not, the handler's verdicts ok / continue / fail in order, up to 2 (quick) / 3
(thorough) client packets AUTH Continue / Re-authenticate with the right or another method, PINGREQ), the replies MQTT demands.
TLC checks NoAuthWithoutMethod, MethodEchoed, AcceptedOnlyAfterOk, SilentAfterClose on the demanded replies; every case runs
on real brokers whose OnEnhancedAuth / OnAuth / OnReAuth hooks give the scripted verdicts; differences are reported as
OBSERVATION lines grouped by the named as-coded deviation that explains them (DESIGN.md 11)."""
import vlib, enhauth_lib as el

LEVEL = "model_checking"

EXPLAINS = {
    "reauth_method_compared_with_data": ["reply:want=auth/0/", "reply:want=auth/24/m=true,got=disconnect", "reply:want=auth/24/m=true,got=closed", "reply:want=disconnect/128/m=false,got=disconnect/130"],
    "handshake_auth_never_read": ["reply:want=auth/24/m=true,got=silence", "reply:want=connack/0/m=true,got=silence", "reply:want=connack/128/m=false,got=silence",
                                  "reply:want=connack/0/m=false,got=silence"],
    "connack_without_method": ["reply:want=connack/0/m=true,got=connack/0/m=false"],
    "bad_method_answered_unspecified": ["reply:want=connack/140/m=false,got=connack/128"],
}


def run(ctx):
    full = ctx.tier != "quick"
    d0 = el.design(ctx, full, [], "demanded")
    if d0.violation or d0.rc != 0:
        raise vlib.MachineryError("the demanded replies of EnhAuth.tla break its own statements (model bug):\n" + (d0.violation or "\n".join(d0.tail[-20:])))
    d1 = el.design(ctx, False, el.DEVIATIONS, "ascoded")
    ctx.cov["design_level"] = {"cases": d0.distinct, "demanded_replies_coherent": True,
                               "as_coded_replies_violate": (d1.violation or "").splitlines()[0] if d1.violation else None}
    s, divs, res = el.replay(ctx, full, [], "strict")
    ctx.cov["traces_validated_against_impl"] += s["n"]
    ctx.cov["evaluations"] += s["n"]
    ctx.cov["distinct_nontrivial"] += s["nontrivial"]
    by = {k[4:]: v for k, v in s["counters"].items() if k.startswith("div:")}
    ctx.cov["strict_divergences_by_signature"] = by
    unexplained, hits = [], {}
    for sig, n in sorted(by.items()):
        dev = next((d for d, pats in EXPLAINS.items() if any(sig.startswith(p) for p in pats)), None)
        if dev is None:
            unexplained.append((sig, n))
        else:
            hits[dev] = hits.get(dev, 0) + n
    for dev, n in sorted(hits.items()):
        ex = next((d for d in divs if any(d["signature"].startswith(p) for p in EXPLAINS[dev])), None)
        vlib.log("OBSERVATION: growth=G03 deviation=%s cases=%d e.g. %s" % (dev, n, (ex or {}).get("what", "")[:500]))
    s2, divs2, _ = el.replay(ctx, full, el.DEVIATIONS, "ascoded")
    ctx.cov["traces_validated_against_impl"] += s2["n"]
    ctx.cov["evaluations"] += s2["n"]
    ctx.cov["as_coded_divergences"] = {k[4:]: v for k, v in s2["counters"].items() if k.startswith("div:")}
    ctx.cov["observations"] = hits
    ctx.cov["rule"] = ("every case of EnhAuth.tla executed twice on real brokers with scripted hooks (demanded replies; replies with the named "
                       "as-coded deviations, which must then agree exactly); non-trivial = every reply and the final open/closed state as predicted")
    for s_ in s2.get("samples", [])[:2]:
        ctx.sample({"case": s_})
    for sig, n in unexplained:
        ex = next((d for d in divs if d["signature"] == sig), None)
        vlib.log("UNEXPLAINED: growth=G03 %s x%d %s" % (sig, n, (ex or {}).get("what", "")[:400]))
    for d in divs2[:10]:
        vlib.log("UNEXPLAINED (with the as-coded deviations): growth=G03 %s: %s" % (d["signature"], d["what"][:500]))
    ctx.cov["unexplained"] = len(unexplained) + len(divs2)
    if unexplained or divs2:
        ctx.notes.append("growth check G03 has unexplained differences")
