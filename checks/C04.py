"""C04 – inbound QoS 2 is exactly-once; every QoS>0 packet gets its matching ack.
Inbound.tla: TLC checks ExactlyOnce/AckPairing on all histories up to depth D and prints every history (behaviour
enumeration); each history is replayed on a real broker (scripted publisher with explicit packet ids, duplicates,
id reuse, reconnects with Clean Start 0/1) and the recorded trace is validated by TLC against Broker.tla."""
import random
import vlib, trace_lib, scen

LEVEL = "model_checking"
INV = ("IdsDistinct", "SubsKeyed", "OneConnPerId")

CFG = """SPECIFICATION Spec
CONSTANTS
 Ids = {1, 2}
 D = %d
CONSTRAINT Dump
INVARIANTS ExactlyOnce AckPairing OpenIffUnack
CHECK_DEADLOCK FALSE
"""


def histories(ctx, depth):
    out = []
    res = ctx.tlc("Inbound", "", CFG % depth, name="Inbound_d%d" % depth, workers=4, on_line=lambda o: out.append(o["hist"]), timeout=900)
    if res.violation:
        raise vlib.MachineryError("design-level check of Inbound.tla failed:\n" + res.violation)
    return out


def to_scenario(sid, i, hist, ver, rng, persist=""):
    exp = {"expiry": 1000} if ver == 5 else {}
    steps = [scen.connect(1, "sub", 5), scen.sub(1, [{"n": "q/#", "qos": 2}]),
             scen.connect(2, "pubr", ver, clean=True, nosentinel=True, **exp)]
    k = 2
    # an MQTT 5 publisher may name the topic through an alias: the first PUBLISH of a connection (a retransmission with
    # DUP = 1 included) binds it, the later ones carry the alias alone
    usealias = ver == 5 and rng.random() < 0.5
    bound = False

    def al():
        nonlocal bound
        if not usealias:
            return {}
        if bound:
            return {"alias": 1, "notopic": True}
        bound = True
        return {"alias": 1}
    for op in hist:
        if op["op"] == "pub2":
            steps.append(scen.pub(k, "q/m", 2, "L%d" % op["msg"], pid=op["id"], dup=op["dup"], norel=True, **al()))
        elif op["op"] == "rel":
            steps.append({"op": "ack", "k": k, "t": "pubrel", "pid": op["id"]})
        elif op["op"] == "pub1":
            steps.append(scen.pub(k, "q/m", 1, "L%d" % op["msg"], pid=10 + op["id"], **al()))
        elif op["op"] == "reconnect":
            steps.append({"op": "abort" if rng.random() < 0.5 else "disconnect", "k": k})
            k += 1
            bound = False
            steps.append(scen.connect(k, "pubr", ver, clean=op["dup"], nosentinel=True, **exp))
        steps.append(scen.BARRIER)
    cfg = {"mode": "overlap", "qq0": True}
    if persist:
        cfg["persist"] = persist
    return {"id": "%s-h%d%s" % (sid, i, persist[:1]), "cfg": cfg, "steps": steps, "hist": hist}


def run(ctx):
    rng = random.Random(ctx.seed)
    quick = ctx.tier == "quick"
    depth = 4 if quick else 5
    hs = histories(ctx, depth)
    ctx.cov["histories_enumerated"] = len(hs)
    if quick:
        hs = rng.sample(hs, min(len(hs), 500))
    # longer seeded histories from the same alphabet (ids interleaved, reuse) as random walks of the model's actions
    scs = [to_scenario("s%d" % ctx.seed, i, h, rng.choice([4, 5]), rng) for i, h in enumerate(hs)]
    # the same histories on a broker whose persistence is redis (the in-process RESP server): the identifiers awaiting PUBREL
    # then live in the redis-backed unack store
    rs = rng.sample(hs, min(len(hs), 150 if quick else 2000))
    scs += [to_scenario("s%d" % ctx.seed, i, h, rng.choice([4, 5]), rng, persist="redis") for i, h in enumerate(rs)]
    ctx.cov["rule"] = ("TLC enumerates every history of length %d over {PUBLISH q2 (id, dup), PUBREL(id), PUBLISH q1, reconnect(clean)} x ids {1,2} "
                       "(Inbound.tla, invariants ExactlyOnce/AckPairing checked on all of them); %s are replayed on a real broker (v3.1.1 / v5 "
                       "publisher - half of the v5 ones naming the topic through an alias -, independent QoS2 subscriber, barrier after every step; a sample again with persistence = redis over the RESP fake) and each trace is validated against Broker.tla; "
                       "non-trivial = the history contains a QoS2 retransmission, an id reuse or a reconnect" % (depth, "a seeded sample of 500" if quick else "all"))
    nontriv = sum(1 for h in hs if any(o["op"] == "reconnect" or (o["op"] == "pub2" and not o["new"]) for o in h))
    rejected, stats = trace_lib.validate(ctx, scs, "c04", invariants=INV)
    ctx.cov["traces_validated_against_impl"] += stats["validated"] + stats["rejected"]
    ctx.cov["evaluations"] += stats["events"]
    ctx.cov["distinct_nontrivial"] += nontriv
    ctx.cov["scenarios"] = stats
    ctx.cov["exhaustive"] = not quick
    ctx.sample({"history": hs[0]})
    trace_lib.confirm(ctx, rejected, INV)
