"""C19 – no broker state reachable without authentication (auth plugin).
TLC explores AuthGate.tla exhaustively per pack (hash algorithm x password-file path mode x concretisation of the abstract
strings); every transition is replayed on a fresh real broker with the real auth plugin (transition coverage): account
operations through the plugin's handlers, CONNECTs of every version / flag combination / credential class / Authentication
Method through independent wire clients, unauthenticated packets, Restart = Stop + new broker on the same password file.
See DESIGN.md §C19."""
import json
import vlib, auth_lib
from auth_lib import ALGOS, SHAPES, PREKINDS, PREPHASES, PREVERS

LEVEL = "model_checking"

USER_MISS_ALL = ["u1.pre", "u1.case", "u1.ext", "u2.pre", "u1.max", "x.empty", "unk"]
PASS_MISS_ALL = ["pre", "cas", "emp", "ext", "nul", "max", "hashof"]
STORED_SETS = [["b", "pre", "emp"], ["b", "cas", "emp"], ["b", "pre", "cas"]]


def rot(xs, k, n):
    """n elements of xs starting at position k (cyclic)"""
    return [xs[(k + i) % len(xs)] for i in range(min(n, len(xs)))]


def spec(name, pack, algo, mode="abs", stored=None, user_miss=("unk",), pass_miss=("ext",), shapes=("v311", "v5"), lns=("tcp",),
         man_none=("own",), man_victim=("victim+will",), prekinds=PREKINDS, prephases=("pipelined",), prevers=("v311",), dev=(),
         after_takeover=False, workers=12):
    return {"name": name, "pack": pack, "algo": algo, "mode": mode, "stored": list(stored or STORED_SETS[0]),
            "user_miss": list(user_miss), "pass_miss": list(pass_miss), "shapes": list(shapes), "lns": list(lns),
            "man_none": list(man_none), "man_victim": list(man_victim), "prekinds": list(prekinds),
            "prephases": list(prephases), "prevers": list(prevers), "dev": list(dev), "after_takeover": after_takeover,
            "workers": workers}


def plan(tier, seed):
    specs = []
    main = ALGOS[seed % 4]
    stored = STORED_SETS[seed % 3]
    others = [a for a in ALGOS if a != main]
    if tier == "quick":
        # the seed's algorithm: all CONNECT shapes x all flag combinations x near-miss classes, 2 users x 3 storable passwords
        specs.append(spec("main_" + main, "ascii", main, stored=stored, user_miss=["unk"] + rot(["u1.pre", "u1.case", "u1.max", "x.empty", "u1.ext"], seed, 1),
                          pass_miss=["ext", "rep"] + rot(["nul", "max", "hashof", "cas", "pre"], seed, 1),
                          shapes=SHAPES, man_none=["own"], man_victim=["victim+will"],
                          prephases=sorted(set(rot(PREPHASES, seed, 2) + ["burst"])), prevers=rot(PREVERS, seed, 1), workers=16))
        # the other algorithms: both users, 2 storable passwords, fewer classes, other concretisations
        packs = rot(["nested", "unicode", "yaml", "ascii"], seed, 3)
        for i, a in enumerate(others):
            specs.append(spec("side_" + a, "long72" if a == "bcrypt" else packs[i], a, stored=["b", rot(["pre", "cas", "emp"], seed + i, 1)[0]],
                              user_miss=["unk"], pass_miss=["ext"] + rot(["max", "nul", "rep"], seed + i, 1) + (["rep"] if a == "bcrypt" else []),
                              shapes=rot(SHAPES[:3], seed + i, 1) + rot(SHAPES[3:] + SHAPES[:3], seed + i, 1),
                              prephases=rot(PREPHASES, seed + i, 1), prevers=rot(PREVERS, seed + i, 1)))
        if main == "bcrypt":
            specs.append(spec("long72_bcrypt", "long72", "bcrypt", stored=["b"], pass_miss=["ext", "max", "nul", "rep"], shapes=["v311"], prekinds=["pingreq"], workers=6))
        # password file given relative to the configuration directory (working directory differs / is the same)
        specs.append(spec("rel_" + main, "ascii", main, mode="rel", stored=["b", "pre"], shapes=["v311"], pass_miss=[], user_miss=["unk"],
                          prekinds=["pingreq"], workers=6))
        specs.append(spec("relsame_" + main, "ascii", main, mode="relsame", stored=["b"], shapes=["v5"], pass_miss=[], user_miss=["unk"],
                          prekinds=["pingreq"], workers=6))
        # websocket listener
        specs.append(spec("ws_" + main, "ascii", main, stored=["b"], lns=["ws"], shapes=rot(SHAPES[:3], seed, 1) + rot(SHAPES[3:], seed, 1), pass_miss=["ext"], user_miss=["unk"],
                          prephases=PREPHASES, prevers=rot(PREVERS, seed, 1), workers=6))
    else:
        for i, a in enumerate([main] + others):
            st = STORED_SETS[(seed + i) % 3]
            specs.append(spec("full_" + a, "ascii", a, stored=st,
                              user_miss=["u1.pre", "u1.case", "unk", "u1.max", "x.empty"] if a == main else ["unk"] + rot(["u1.pre", "u1.case", "u1.max", "x.empty"], seed + i, 2),
                              pass_miss=["pre", "cas", "emp", "ext", "nul", "rep", "max", "hashof"], shapes=SHAPES,
                              man_none=["own"], man_victim=["victim", "victim+will"] if a == main else ["victim+will"],
                              prephases=PREPHASES, prevers=PREVERS, after_takeover=(a == main), workers=16))
        packs = ["nested", "unicode", "yaml", "long72", "maxstored"]
        for i, pk in enumerate(packs):
            for j, a in enumerate(ALGOS):
                if pk == "maxstored" and a == "bcrypt":
                    continue
                if (i + j + seed) % 2 and not (pk == "long72" and a == "bcrypt"):
                    continue   # every pack with two of the algorithms (the seed decides which); long72 always with bcrypt
                specs.append(spec("%s_%s" % (pk, a), pk, a, stored=["b", rot(["pre", "cas", "emp"], seed + i + j, 1)[0]],
                                  user_miss=["unk", "u1.pre", "u1.ext", "u2.pre"], pass_miss=["pre", "cas", "ext", "max", "nul", "rep"],
                                  shapes=rot(SHAPES[:3], seed + i + j, 2) + rot(SHAPES[3:], seed + j, 1), man_victim=["victim+will"],
                                  prephases=rot(PREPHASES, seed + j, 1), prevers=rot(PREVERS, seed + i, 1)))
        for a in ALGOS:
            kw = dict(mode="rel", stored=["b", "pre"], shapes=["v311", "v5"], pass_miss=["ext"], user_miss=["unk"],
                      prekinds=["pingreq", "connect2"], workers=6)
            specs.append(spec("rel_" + a, "ascii", a, **kw))
            # (the pack with the deviation `relpath` - the saved file is never the loaded one - described the tree before 014f44a;
            # the deviation stays in AuthGate.tla as a mutant of the model only)
            kw["mode"] = "relsame"
            specs.append(spec("relsame_" + a, "ascii", a, **kw))
        # the seed's algorithm once more with the deviation `authmethod_rejected`: behind the refused Authentication Method
        # CONNECTs nothing else may differ (their state projection is skipped in the strict packs)
        specs.append(spec("amdev_" + main, "ascii", main, stored=["b", "emp"], user_miss=["unk"], pass_miss=["ext"], shapes=["v5", "v5am", "v5amd", "v5am0"],
                          man_victim=["victim", "victim+will"], prekinds=["connect2"], dev=["authmethod_rejected"], after_takeover=True))
        for i, a in enumerate(rot(ALGOS, seed, 2)):
            specs.append(spec("ws_" + a, "ascii", a, stored=["b", "emp"], lns=["tcp", "ws"], shapes=SHAPES[:3] + rot(SHAPES[3:], seed + i, 1), pass_miss=["ext", "nul"], user_miss=["unk"],
                              man_victim=["victim+will"], prephases=PREPHASES, prevers=PREVERS, workers=12))
    return specs


def run(ctx):
    ctx.cov["rule"] = ("every (state, operation) pair of AuthGate.tla per pack is replayed on a fresh real broker with the real auth plugin "
                       "(prefix = BFS path): Update/Delete through the plugin's handlers, Restart = Stop + new broker on the same password file, "
                       "CONNECT over shapes {v3.1, v3.1.1, v5, v5+AuthMethod, v5+AuthMethod+AuthData, v5+zero-length AuthMethod} x user-name/password flags x user classes "
                       "(stored, prefix, case/normal form, extension, 65535 bytes, empty, unknown) x password classes (stored, prefix, case, empty, "
                       "extension, trailing NUL, password NUL password, 65535 bytes, the stored hash text) x client id own/victim x will, unauthenticated packet sequences "
                       "(SUBSCRIBE, PUBLISH retained/clearing/to the victim, UNSUBSCRIBE, PINGREQ, AUTH, DISCONNECT, 2nd CONNECT with valid credentials) "
                       "before any CONNECT / after a failed CONNECT / pipelined behind it; compared: CONNACK accept/reject, ClientService sessions+clients, "
                       "SubscriptionService, RetainedService, the victim's connection, account API List/Get, probe CONNECTs per account (full user x password "
                       "matrix after account operations and again after a shadow restart = projection of `file`); non-trivial = accounts or victim state present")
    ctx.assumptions += [
        "2 storable users x 3 storable passwords per main pack (2 in side packs); near misses are concretisations of abstract tokens",
        "a CONNECT without password flag against an account whose stored password is empty: either result allowed (not decided by the property text)",
        "missing CONNACK for a rejected CONNECT is reported under its own signature; absence is decided by the hook event exit.write of the connection's writer + 60 ms",
        "v3.x CONNECT with password flag but without user-name flag (protocol error): close without CONNACK counts as reject",
        "hash algorithms exercised through the plugin itself (accounts are only created through Update); bcrypt cost is fixed by the plugin (MinCost)",
        "memory persistence: a restart forgets sessions/subscriptions/retained messages",
    ]
    if getattr(ctx, "replay", None):
        # ./check C19 quick --replay evidence/replays/C19_<id>.json : the stored transition on a fresh broker
        with open(ctx.replay) as fh:
            obj = json.load(fh)
        n = 200 if obj["signature"] == "c19:failing-connack-lost" else 1     # the lost CONNACK is probabilistic
        found = False
        for _ in range(n):
            summary, divs = auth_lib.replay(ctx, obj)
            ctx.cov["traces_validated_against_impl"] += summary["n"]
            ctx.cov["evaluations"] += summary["counters"].get("connects", 0)
            for d in divs:
                found = True
                ctx.violation(d["what"], {"signature": d["signature"], "kind": "authgate-transition", "pack": d["pack"], "algo": d["algo"],
                                          "pwfile": d["mode"], "deviations": d["dev"], "meta": d["meta_file"], "transition": d.get("line"),
                                          "observed": d.get("extra")})
            if found:
                break
        ctx.cov["rule"] = "replay of one stored AuthGate transition"
        ctx.sample({"replayed": obj["transition"], "reproduced": found})
        return
    specs = plan(ctx.tier, ctx.seed)
    try:
        results = auth_lib.run_many(ctx, specs, parallel=len(specs) if ctx.tier == "quick" else 4)
    except vlib.BrokerCrash as e:
        # a goroutine of the broker (no harness frame below it) brought the process down while CONNECTs were replayed: nobody
        # is accepted any more, whatever the credentials
        ctx.cov["rule"] = "replay of AuthGate.tla transitions on real brokers; the run ended with a crash of the broker process"
        ctx.violation("the broker crashed while CONNECT attempts were replayed: %s in %s" % (e.headline, e.frame),
                      {"signature": "c19:broker-crashed:" + e.frame, "kind": "crash", "trace": e.trace})
        return
    agg = {}
    alldivs = []
    packs = []
    for sp, summary, divs, res in results:
        c = summary["counters"]
        for k, v in c.items():
            if not k.startswith("us:") and not k.startswith("div:"):
                agg[k] = agg.get(k, 0) + v
        ctx.cov["traces_validated_against_impl"] += summary["n"]
        ctx.cov["evaluations"] += c.get("connects", 0)
        ctx.cov["distinct_nontrivial"] += summary["nontrivial"]
        packs.append({"name": sp["name"], "pack": sp["pack"], "algo": sp["algo"], "pwfile": sp["mode"], "dev": sp["dev"], "states": res.distinct,
                      "transitions_replayed": summary["n"], "path_not_followable": c.get("path_not_followable", 0),
                      "connects": c.get("connects", 0), "divergences": summary["divergences"], "wall_s": round(summary["wall_s"], 1)})
        vlib.log("[C19] %-16s algo=%-6s pwfile=%-7s states=%d transitions=%d connects=%d divergences=%d (%.0fs)" % (
            sp["name"], sp["algo"], sp["mode"], res.distinct, summary["n"], c.get("connects", 0), summary["divergences"], summary["wall_s"]))
        if summary["samples"]:
            ctx.sample({"pack": sp["name"], "transition": summary["samples"][0]}, cap=3)
        if summary.get("machinery_failures"):
            raise vlib.MachineryError("pack %s: %d transitions could not be executed" % (sp["name"], summary["machinery_failures"]))
        if summary.get("stray_files_in_cwd"):
            ctx.notes.append("pack %s: files left in the working directory: %s" % (sp["name"], summary["stray_files_in_cwd"][:5]))
        for d in divs:
            if d["signature"].startswith("machinery:"):
                raise vlib.MachineryError("pack %s: %s: %s" % (sp["name"], d["signature"], d["what"]))
            # a pack that runs with a deviation must not show the finding the deviation stands for: keep such a divergence
            # apart from the known finding's signature
            if ("relpath" in sp["dev"] and ":pwfile=" in d["signature"]) or \
               ("authmethod_rejected" in sp["dev"] and "authentication-method" in d["signature"]):
                d = dict(d)
                d["signature"] += ":with-deviation-" + "+".join(sp["dev"])
            alldivs.append(d)
    ctx.cov["packs"] = packs
    owed = agg.get("reject_owed_connack", 0)
    lost = agg.get("failing_connack_lost", 0)
    ctx.cov["counters"] = {k: v for k, v in sorted(agg.items())}
    ctx.cov["failing_connack"] = {"owed": owed, "lost": lost, "rate": round(lost / owed, 5) if owed else None}
    ctx.cov["exhaustive"] = True
    vlib.log("[C19] failing CONNACKs owed=%d lost=%d (%.3f %%); broker closed the connection after a failing CONNACK in %d of %d sampled cases" % (
        owed, lost, 100.0 * lost / owed if owed else 0.0, agg.get("after_failing_connack:broker_closed_connection", 0),
        agg.get("after_failing_connack:broker_closed_connection", 0) + agg.get("after_failing_connack:connection_left_open_50ms", 0)))
    seen = set()
    unconfirmed = 0
    for d in alldivs:
        if d["signature"] in seen:
            continue
        seen.add(d["signature"])
        art = {"signature": d["signature"], "kind": "authgate-transition", "pack": d["pack"], "algo": d["algo"],
               "pwfile": d["mode"], "deviations": d["dev"], "meta": d["meta_file"], "transition": d.get("line"),
               "observed": d.get("extra"), "replay": "./check C19 quick --replay <this file>"}
        # a verdict rests on behaviour that repeats: the transition once more, alone, on a fresh broker (many brokers come and go
        # while a pack is replayed; an answer must not be taken from a neighbour or from a broker that is shutting down).  What is
        # reported as probabilistic (a CONNACK that did not arrive) gets 200 tries.
        base = d["signature"].split(":with-deviation-")[0]
        tries = 200 if ("without-connack" in base or "connack-lost" in base) else 2
        again = False
        if art["transition"] is not None and not d["dev"]:
            for _ in range(tries):
                _, divs2 = auth_lib.replay(ctx, dict(art, signature=base))
                if any(x["signature"] == base for x in divs2):
                    again = True
                    break
        else:
            again = True      # (no transition attached / a deviation pack: reported as observed)
        if not again:
            unconfirmed += 1
            ctx.cov["timing_unconfirmed"] = ctx.cov.get("timing_unconfirmed", 0) + 1
            ctx.notes.append("not repeated alone (%d tries), not reported: %s: %s" % (tries, d["signature"], d["what"][:200]))
            continue
        ctx.violation(d["what"], art)
    if unconfirmed > 5:
        raise vlib.MachineryError("%d divergences of the bulk replay did not repeat alone: the run is not trustworthy" % unconfirmed)
