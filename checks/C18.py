"""C18 - MQTT over WebSocket: the broker processes exactly the concatenation of the binary messages' payloads for every
segmentation of the client's byte stream and every read size; text messages end the connection; everything written
arrives as binary messages.

Design level: WsConn.tla (TLC: ReadsConcatenateToStream for all splits of streams of <= 10 bytes, read sizes 1..4; the
implementation-shaped reset condition is a named deviation that TLC refutes).
Binding (behaviour enumeration): WsSeg.tla enumerates segmentations of real MQTT byte streams (geometry from the driver);
harness/cmd/wsconn sends each one through gorilla/websocket to a real WsServer listener of an in-process broker and
compares the answers byte for byte with the same stream over the broker's TCP listener.  See DESIGN.md C18."""
import json, os, re, threading
import vlib, wsconn_lib

LEVEL = "model_checking"

SIG_DROP = "wsconn-read-drops-last-byte-when-one-left"


def design_level(ctx, out, which):
    """one of the three WsConn.tla runs (each on its own thread next to the enumeration)"""
    q = ctx.tier == "quick"
    try:
        if which == "bin":
            out[which] = wsconn_lib.design_run(ctx, "bin", 10, 10, 1, False, False)
        elif which == "text":
            out[which] = wsconn_lib.design_run(ctx, "text_empty", 5 if q else 6, 4 if q else 5, 0, True, False)
        else:
            out[which] = wsconn_lib.design_run(ctx, "impl", 4, 4, 1, False, True)
    except BaseException as e:
        out["error"] = e


def replay(ctx):
    with open(ctx.replay) as fh:
        rp = json.load(fh)
    bindir = ctx.go_build(["./cmd/wsconn"])
    path = os.path.join(ctx.tmp("replay"), "profiles.json")
    with open(path, "w") as fh:
        json.dump(rp["profiles"], fh)
    drv = wsconn_lib.Driver(os.path.join(bindir, "wsconn"), path, ["-par", "1", "-soft", "8000"])
    drv.feed(json.dumps(rp["scenario"]))
    summary, divs = drv.finish(600)
    ctx.cov["traces_validated_against_impl"] = summary["n"]
    ctx.cov["rule"] = "replay of one stored segmentation"
    report(ctx, rp["profiles"], divs)


def report(ctx, profiles, divs):
    seen = set()
    confirmed = [d for d in divs if not d["signature"].startswith("UNCONFIRMED:")]
    for d in divs:
        sig = d["signature"]
        if sig.startswith("UNCONFIRMED:"):
            if confirmed:
                # next to divergences that did repeat: not reported, only counted (a verdict rests on repeated behaviour only)
                ctx.cov["timing_unconfirmed"] = ctx.cov.get("timing_unconfirmed", 0) + 1
                continue
            raise vlib.MachineryError("flaky scenario (diverged under load, conformant alone): " + d["what"][:600] + " " +
                                      json.dumps(d.get("extra"))[:1500])
        if sig in seen:
            continue
        seen.add(sig)
        ctx.violation(d["what"], {"signature": sig, "kind": "ws-segmentation", "profiles": profiles, "scenario": d.get("line"),
                                  "result": d.get("extra"),
                                  "how": "./check C18 quick --replay <this file>  (driver: harness/cmd/wsconn -raw, one line on stdin)"})


def run(ctx):
    if ctx.replay:
        return replay(ctx)
    q = ctx.tier == "quick"
    ctx.cov["rule"] = ("every segmentation printed by TLC (WsSeg.tla: exhaustive families per stream + -simulate walks) is sent once "
                       "through a real WebSocket listener; non-trivial = more than one message; verdict = byte-for-byte comparison "
                       "(two lanes: deliveries / other answers) with the same stream over the broker's TCP listener")
    ctx.assumptions += [
        "the broker's answer to a byte stream over its TCP listener is the reference for what 'processing the stream' means",
        "answers are compared per lane (PUBLISH deliveries / everything else): an acknowledgement and the delivery of one PUBLISH come "
        "from two goroutines",
        "gmqtt stops writing once it has handled DISCONNECT and leaves closing to the client: answers to packets completed by the same "
        "WebSocket message as DISCONNECT may be missing (never wrong); the d=1 families and the streams without DISCONNECT owe every answer",
        "the effect of the DISCONNECT packet itself is not observable on the connection",
        "subscriptions are QoS 0 (packet ids of QoS>0 deliveries depend on the poller's batching)",
        "a silent broker counts only after a TCP canary on the same broker completed and a grace period passed; every reported divergence "
        "was repeated alone with a long timeout",
    ]
    bindir = ctx.go_build(["./cmd/wsconn"])
    binpath = os.path.join(bindir, "wsconn")
    profiles, profpath, geo = wsconn_lib.make_profiles(ctx, binpath)
    jobs = wsconn_lib.plan(ctx, geo)
    drv = wsconn_lib.Driver(binpath, profpath, ["-par", "96", "-soft", "1500" if q else "2500", "-patient", "5000" if q else "15000"])
    # a second broker with mqtt.max_packet_size = 512: the limit is per MQTT packet, not per WebSocket message
    packpath = os.path.join(ctx.tmp("wsprof2"), "profiles_pack.json")
    with open(packpath, "w") as fh:
        json.dump([p for p in profiles if p["name"] == "pack"], fh)
    drv2 = wsconn_lib.Driver(binpath, packpath, ["-par", "32", "-soft", "1500" if q else "2500", "-patient", "5000" if q else "15000",
                                                 "-maxpkt", str(wsconn_lib.PACK_MAXPKT)])
    # a third broker for the scenarios that leave unread bytes behind DISCONNECT, one at a time, each followed by fresh connections
    drv3 = wsconn_lib.Driver(binpath, profpath, ["-par", "1", "-victims", "3", "-soft", "1500" if q else "2500", "-patient", "5000" if q else "15000"])
    design = {}
    pack_results = []
    def pack_side():
        pack_results.extend(wsconn_lib.run_jobs(ctx, geo, wsconn_lib.plan_pack(ctx, geo), drv2))
        pack_results.extend(wsconn_lib.run_jobs(ctx, geo, wsconn_lib.plan_trail(ctx, geo), drv3))
    results = wsconn_lib.run_jobs(ctx, geo, jobs, drv, extra_threads=[threading.Thread(target=design_level, args=(ctx, design, w)) for w in ("bin", "text", "impl")]
                                  + [threading.Thread(target=pack_side)])
    t1 = vlib.time.time() - ctx.t0
    summary, divs = drv.finish(240 if q else 1200)
    summary2, divs2 = drv2.finish(240 if q else 1200)
    summary3, divs3 = drv3.finish(240 if q else 1200)
    results += pack_results
    divs += divs2 + divs3
    for sm in (summary2, summary3):
        for k in ("n", "nontrivial", "strict", "text", "messages", "bytes", "diverging_scenarios"):
            summary[k] = summary.get(k, 0) + sm.get(k, 0)
        for k, v in (sm.get("per_family") or {}).items():
            summary["per_family"][k] = summary["per_family"].get(k, 0) + v
        for k, v in (sm.get("by_signature") or {}).items():
            summary["by_signature"][k] = summary["by_signature"].get(k, 0) + v
    for sm in (summary, summary2, summary3):
        if sm.get("intrinsic_reference"):
            ctx.cov["reference"] = "intrinsic (what MQTT demands for the stream, decoded with the independent codec): " + sm["intrinsic_reference"]
            ctx.notes.append("the TCP twin was not usable as the reference: " + sm["intrinsic_reference"])
    ctx.cov["unread_tail_run"] = {"segmentations": summary3["n"], "fresh_connections_after_each": 3}
    ctx.cov["small_max_packet_size_run"] = {"max_packet_size": wsconn_lib.PACK_MAXPKT, "segmentations": summary2["n"]}
    ctx.cov["phases_s"] = {"enumeration_done": round(t1, 1), "driver_done": round(vlib.time.time() - ctx.t0, 1)}

    # ---- design level
    if "error" in design:
        raise design["error"]
    a, b, c = design["bin"], design["text"], design["impl"]
    for r, nm in ((a, "binary"), (b, "text+empty")):
        if not r.ok():
            raise vlib.MachineryError("design-level check of WsConn (%s) failed (model bug):\n%s" % (nm, r.violation or r.tail[-20:]))
    if not (c.violation and "ReadsConcatenateToStream" in c.violation):
        raise vlib.MachineryError("the named deviation DropLastWhenOneLeft is not refuted by TLC - the model lost its teeth")
    m = re.search(r"msgs = (<<.*>>)", c.violation)
    ctx.cov["design_level"] = {
        "ReadsConcatenateToStream": "holds: all splits of streams <= 10 bytes into <= 10 messages, read sizes 1..4 (%d states); "
                                    "with a text message / empty messages: %d states" % (a.distinct, b.distinct),
        "deviation_DropLastWhenOneLeft": "refuted by TLC (ReadsConcatenateToStream), shortest counterexample: msgs = %s, Read(1)" % (
            m.group(1) if m else "?")}
    for r in (a, b, c):
        ctx.cov["states"] += r.distinct
        ctx.cov["transitions"] += r.generated

    # ---- enumeration
    fams = {}
    for job, res in results:
        gen, dist = res.generated, res.distinct
        if job.simulate:
            for line in res.tail:
                mm = re.match(r"The number of states generated: (\d+)", line)
                if mm:
                    gen = dist = int(mm.group(1))
        ctx.cov["states"] += dist
        ctx.cov["transitions"] += gen
        fams.setdefault(job.stream, []).append({"families": job.fams, "mode": job.simulate or "exhaustive", "lines": res.lines})
    n = summary["n"]
    ctx.cov["traces_validated_against_impl"] = n
    ctx.cov["evaluations"] = n
    ctx.cov["distinct_nontrivial"] = summary["nontrivial"]
    ctx.cov["streams"] = {s: {"bytes": geo[s]["n"], "packets": [p["kind"] for p in geo[s]["pk"]], "enumerated": fams.get(s)} for s in geo}
    ctx.cov["segmentations"] = {"executed": n, "duplicates_dropped": drv.dups, "per_family": summary["per_family"],
                                "owing_every_answer": summary["strict"], "with_text_message": summary["text"],
                                "websocket_messages_sent": summary["messages"], "stream_bytes_sent": summary["bytes"]}
    ctx.cov["deviation_model"] = {"segmentations_where_DropLastWhenOneLeft_loses_a_byte": summary["predicted_drop"],
                                  "of_these_conformant_on_the_real_code": summary["predicted_drop_but_conformant_strict"],
                                  "of_these_without_a_text_message": summary["predicted_drop_but_conformant_strict_binary_only"],
                                  "of_these_conformant_samples": summary.get("predicted_drop_but_conformant_samples"),
                                  "conformant_but_tail_tolerated": summary["predicted_drop_but_conformant_tolerant"],
                                  "diverging_scenarios_by_signature": summary["by_signature"]}
    ctx.cov["exhaustive"] = False
    if summary.get("twin_anomalies"):
        ctx.cov["tcp_twin_anomalies"] = summary["twin_anomalies"][:10]
        ctx.notes.append("%d TCP twin exchanges (the reference, no WebSocket involved) did not have the expected number of packets and were "
                         "repeated with a fresh client id: %s" % (len(summary["twin_anomalies"]), summary["twin_anomalies"][0][:300]))
    for s in summary["samples"][:2]:
        ctx.sample({"segmentation": s})
    if summary["predicted_drop_but_conformant_strict"]:
        ctx.notes.append("%d segmentations for which the implementation-shaped model loses a byte showed no divergence although every "
                         "answer was owed (the lost byte has no observable effect, e.g. it directly precedes a text message - or "
                         "wsConn.Read has been repaired)" % summary["predicted_drop_but_conformant_strict"])
    vlib.log("[C18] %d segmentations on the real broker (%d owe every answer, %d with a text message), %d diverged %s" % (
        n, summary["strict"], summary["text"], summary["diverging_scenarios"], json.dumps(summary["by_signature"])))
    report(ctx, profiles, divs)
