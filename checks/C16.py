"""C16 - federation event stream: every event a node emits while its peer session lasts is applied by the peer exactly
once and in order, whatever breaks; after the stream has been stable the peer's view equals the node's local
subscription set; a lost session is repaired by a full resynchronisation.

FedStream.tla (implementation-shaped, grain of plugin/federation/{peer,federation,hooks,membership}.go) is explored
exhaustively by TLC per pack; EVERY generated transition is replayed on the real objects (two Federation values, real
eventQueue / sessionMgr / lruCache / initStream / readLoop / sendEvents / Hello / EventStream / eventStreamHandler /
nodeJoin / nodeFail / hook wrappers) connected by driver-controlled fake streams; the clauses of C16 are evaluated on
the real objects in every reached state.  See DESIGN.md C16 and App. B.5."""
import threading
import vlib, fed_lib

LEVEL = "model_checking"

TOPIC_VARIANTS = [["t"], ["a/b"], ["$share/g/t"], ["+/x"]]
TWO_TOPICS = [["t", "u"], ["t", "$share/g/t"], ["a/#", "a/b"]]
REPAIRS = ["next_before_ack", "unestablished_clean"]


def plan(ctx):
    s = ctx.seed
    one = TOPIC_VARIANTS[s % len(TOPIC_VARIANTS)]
    other = TOPIC_VARIANTS[(s // 3 + 1) % len(TOPIC_VARIANTS)]
    two = TWO_TOPICS[s % len(TWO_TOPICS)]
    # with the resume position written before the ack (repair present in the tree) the model has no step between ack and
    # nextEventID: the state space per bound is ~4 times smaller, so the bounds are raised to fill the same budget
    repaired = "next_before_ack" in fed_lib.detect_fixes(ctx)
    if ctx.tier == "quick":
        fail_bounds = [{"emit": 2, "msg": 0, "brk": 1, "lost": 1, "failA": 1, "failB": 1},
                       {"emit": 2, "msg": 1, "brk": 0, "lost": 1, "failA": 1, "failB": 1}][s % 2]
        core = {"emit": 3, "msg": 1, "brk": 1, "lost": 0}
        if repaired:
            fail_bounds = {"emit": 2, "msg": 1, "brk": 1, "lost": 1, "failA": 1, "failB": 1}
            core = {"emit": 3, "msg": 1, "brk": 2, "lost": 0}
        return [
            # two local clients on one topic (reference counting), one message, a break anywhere
            ("core", ["c1", "c2"], one, core),
            # peer loses the session (B sees A fail / A sees B fail) around cut handshakes
            ("fail", ["c1"], other, fail_bounds),
        ]
    packs = [
        ("core2brk", ["c1", "c2"], one, {"emit": 4 if repaired else 3, "msg": 1, "brk": 2, "lost": 1}),
        ("fail", ["c1"], other, {"emit": 3 if repaired else 2, "msg": 1, "brk": 2 if repaired else 1, "lost": 1, "failA": 1, "failB": 1}),
        ("twotopics", ["c1"], two, [{"emit": 3, "msg": 0, "brk": 1, "lost": 1},
                                    {"emit": 2, "msg": 1, "brk": 1, "lost": 1, "failB": 1}][s % 2]),
        ("refcount_fail", ["c1", "c2"], one, {"emit": 3, "msg": 0, "brk": 1, "lost": 1, "failB": 1}),
        ("twotopics_failA", ["c1"], TWO_TOPICS[(s + 1) % len(TWO_TOPICS)], {"emit": 2, "msg": 0, "brk": 1, "lost": 1, "failA": 1}),
        ("core_failB", ["c1", "c2"], other, {"emit": 3, "msg": 1, "brk": 1, "lost": 1, "failB": 1}),
    ]
    return packs


def run(ctx):
    ctx.cov["rule"] = (
        "every (state, action) pair of FedStream.tla reachable within the pack's bounds is replayed on fresh real federation "
        "objects (prefix = shortest path); after the step the projection is compared: localSubStore reference counts, eventQueue "
        "(ids, events, nextRead, nextID, closed), messages in flight in both directions, session (id, nextEventID, duplicate "
        "filter), mirrored view in fedSubStore, messages published and retained on the peer, ServerHello (clean, next id), "
        "liveness of the stream goroutines; in every reached state the clauses NoGapNoDup, QuiescentView, QuiescentComplete, "
        "NextReadValid, NoStuck are evaluated on the real objects; non-trivial = history of at least one step")
    ctx.assumptions += [
        "two nodes, one direction (A emits, B applies); bounded emissions, breaks, cut handshakes, node failures",
        "fetch batch and duplicate filter are the code's constants (100): not exhausted by histories of <= 3 events",
        "a break loses any suffix of both directions; what survives is read before the error is seen",
        "the server goroutine of an old stream has ended before a *clean* session is created for the node "
        "(except the one goroutine held between ack and nextEventID)",
        "message events are retained publications on one topic (they are part of the resynchronisation)",
        "Go map iteration order (resynchronisation, unsubscribeAll) is obtained by re-running until the model's order appears; "
        "at most one step per history depends on the order of a map with two or more entries (MaxOrd = 1)",
    ]
    fed_lib.build(ctx)
    if getattr(ctx, "replay", None):
        fed_lib.replay(ctx, "C16")
        return
    packs = plan(ctx)
    results = [None] * len(packs)
    errors = []
    par = 2
    sem = threading.Semaphore(par)

    def work(i, p):
        name, clients, topics, bounds = p
        with sem:
            try:
                results[i] = fed_lib.run_stream_pack(ctx, name, clients, topics, bounds, workers=4, drv_workers=10)
            except Exception as e:      # noqa: machinery trouble is re-raised in the main thread
                errors.append(e)

    ths = [threading.Thread(target=work, args=(i, p)) for i, p in enumerate(packs)]
    for t in ths:
        t.start()
    for t in ths:
        t.join()
    if errors:
        raise errors[0]
    alldivs, summaries = [], []
    for (name, clients, topics, bounds), (summary, divs, pack) in zip(packs, results):
        vlib.log("[C16] pack %-13s topics=%s transitions=%d clause-violating states=%d divergences=%d retries=%d" % (
            name, topics, summary["n"], summary.get("bad_states", 0), summary["divergences"], summary.get("retries", 0)))
        ctx.cov["traces_validated_against_impl"] += summary["n"]
        ctx.cov["evaluations"] += summary["n"]
        ctx.cov["distinct_nontrivial"] += summary["nontrivial"]
        ctx.cov.setdefault("packs", []).append(pack)
        for smp in summary["samples"][:1]:
            ctx.sample({"pack": name, "transition": smp})
        alldivs += divs
        summaries.append(summary)
    ctx.cov["exhaustive"] = True
    fed_lib.report(ctx, "C16", "fedstream", alldivs, summaries)
    # emission side below the grain of FedStream.tla: the hooks update the reference counter and queue the event in two
    # separately locked steps (FedEmit.tla); TLC's counterexample schedule is run on the real hook wrappers
    hp = fed_lib.hook_probe(ctx)
    ctx.cov["hook_emission_probe"] = hp
    if hp.get("reproduced") and hp.get("observed"):
        ctx.violation("events of concurrently running hooks reach the peer in the wrong order: client c1 drops the last reference to "
                      "topic t (%s: counter updated, event not yet queued) while client c2 subscribes to t (counter "
                      "updated and event queued); queued for the peer: %s; after the stream has drained: %s" % (
                          hp.get("hook", "OnUnsubscribed"), hp.get("queued"), hp.get("observed")),
                      {"signature": "C16:hook_emission_not_atomic", "kind": "fedstream-probe", "probe": "hookrace",
                       "replay": "harness/cmd/fedstream -probe hookrace", "result": hp})
    elif hp.get("model_violation") and hp.get("window") != "closed":
        ctx.notes.append("timing_unconfirmed: the order inversion of FedEmit.tla was not obtained on the real hooks in %s tries"
                         % hp.get("tries"))
    # byte grain: real gRPC between two real Federation objects, a proxy cuts the TCP connection after scripted byte counts in
    # either direction; the traces are validated by TLC against FedDelivery.tla
    import random, fedgrpc_lib
    rng = random.Random(ctx.seed)
    gs = fedgrpc_lib.scenarios(rng, "s%d" % ctx.seed, 32 if ctx.tier == "quick" else 400)
    gs += fedgrpc_lib.special(rng, "s%d" % ctx.seed, 6 if ctx.tier == "quick" else 40)
    rejected, gstats = fedgrpc_lib.run(ctx, gs, par=32)
    ctx.cov["real_grpc_byte_cuts"] = gstats
    ctx.cov["traces_validated_against_impl"] += gstats["validated"] + gstats["rejected"]
    ctx.cov["evaluations"] += gstats["events"]
    for r in rejected[:6]:
        ev = r["event"]
        absence = '"e":"quiet"' in ev
        if absence:
            # the obligation at quiescence depends on the driver's patience (20 s): once more, alone
            rej2, _ = fedgrpc_lib.run(ctx, [dict(r["scenario"], id=r["scenario"]["id"] + "-again")], name="fedgrpc_again", par=1)
            if not rej2:
                ctx.cov["timing_unconfirmed"] = ctx.cov.get("timing_unconfirmed", 0) + 1
                continue
            r = rej2[0]
        ctx.violation("real gRPC stream with byte-level cuts: trace of scenario %s rejected at line %d: %s -- FedDelivery.tla does not explain this event "
                      "(apply: not the next emitted message; quiet: not everything applied / B's view of A differs from A's local set)" % (
                          r["scenario"]["id"], r["line"], r["event"][:300]),
                      {"signature": "C16:grpc:" + ("quiet" if '"e":"quiet"' in r["event"] else "apply"), "kind": "fedgrpc-trace", "scenario": r["scenario"],
                       "line": r["line"], "event": r["event"], "trace": r["trace"]})
    if ctx.tier != "quick":
        # model-only: with the two proposed repairs modelled every clause holds (never a verdict)
        res = fed_lib.design_check_stream(ctx, "repaired", ["c1", "c2"], ["t"],
                                          {"emit": 3, "msg": 1, "brk": 2, "lost": 1, "failA": 1, "failB": 1}, REPAIRS)
        ctx.cov["repaired_design"] = {"fixes": REPAIRS, "states": res.distinct, "clauses_hold": res.violation is None}
        if res.violation:
            ctx.notes.append("model-only: the repaired design still violates a clause:\n" + res.violation[:1500])
