"""C12 – message expiry is honoured and the remaining lifetime is forwarded.
Timed trace validation: publisher interval x configured maximum lifetime x waiting (online, offline, past the deadline,
slow acker) x versions; Broker.tla rules Lifetime / ExpiryOK / Dropped / Quiet with tolerance windows (DESIGN.md §C12)."""
import random
import vlib, trace_lib, scen

LEVEL = "model_checking"
INV = ("IdsDistinct", "SubsKeyed", "OneConnPerId")


def run(ctx):
    rng = random.Random(ctx.seed)
    quick = ctx.tier == "quick"
    ctx.cov["rule"] = ("seeded timed scenarios: Message Expiry Interval in {none,1,2,100,2^32-1} x configured message_expiry in {0,1 s,2 s,2 h} x "
                       "waiting {online, offline 0.4/1.5/2.6/3.5 s chosen >= 450 ms away from every deadline, held behind an unacknowledged message} "
                       "x v3/v5 publisher and subscriber; TLC validates each event: not delivered after the deadline (+400 ms reading tolerance), "
                       "expired copies dropped and reported through OnMsgDropped, forwarded interval = original - whole seconds waited (+-1 s), "
                       "in [1, original], never absent; non-trivial = a message carried or was given a lifetime")
    ctx.assumptions += ["real seconds: decisive instants are kept >= 450 ms away from deadlines; logging latency is assumed < 400 ms",
                        "retained replay is not part of this property (a fresh lifetime is stamped on purpose)"]
    scs = scen.c12_expiry(rng, "s%d" % ctx.seed, 160 if quick else 1600)
    rejected, stats = trace_lib.validate(ctx, scs, "c12", invariants=INV, par=40)
    ctx.cov["traces_validated_against_impl"] += stats["validated"] + stats["rejected"]
    ctx.cov["evaluations"] += stats["events"]
    ctx.cov["distinct_nontrivial"] += stats["scenarios"]
    ctx.cov["scenarios"] = stats
    trace_lib.confirm(ctx, rejected, INV, limit=6)
