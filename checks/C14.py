"""C14 – what a hook decides is what happens; hook wrappers compose in plugin order, exactly once per event.
Hooks.tla: (a) composition SpecC – TLC enumerates (kind x plugin sequence x exposure x core) with the demanded call log, the
driver runs one event of the kind on a real broker with recording plugins; (b) verdicts SpecV – every (state, request, verdict)
transition within the depth bound is replayed on a fresh broker whose core hooks give the scripted verdict; plus a volume run of
rejected CONNECTs (all CONNACK failure codes).  See DESIGN.md §C14.

Known findings are named deviations of Hooks.tla (known_findings.json entries of C14 carry "deviation").  The strict pass
(Deviations = {}) reports; because a diverging step of a replayed prefix makes the states behind it unreachable on the real code
(the driver skips transitions whose pre-state cannot be established), a second pass with the open deviations switched on covers
those states: it must replay everything without any divergence."""
import json, os, random, threading
import vlib, hooks_lib

LEVEL = "model_checking"

# what the owner of known_findings.json is asked to register (used at run time only with C14_ASSUME_KNOWN=1, for trying the check
# out before the entries exist)
PROPOSED = [
    {"status": "open", "property": "C14", "deviation": "reauth_wrappers_unapplied",
     "signatures": hooks_lib.DEVIATIONS["reauth_wrappers_unapplied"],
     "what": "OnReAuthWrapper of plugins is collected and never applied (server/server.go initPluginHooks): an AUTH re-authentication reaches only the WithHook core hook, no plugin wrapper runs"},
    {"status": "open", "property": "C14", "deviation": "retained_before_hook",
     "signatures": hooks_lib.DEVIATIONS["retained_before_hook"],
     "what": "retained store is updated from the PUBLISH packet before OnMsgArrived runs (server/client.go publishHandler): a retained publish that the hook rejects, drops or rewrites still lands unmodified; a message the hook made retained is not stored"},
    {"status": "open", "property": "C14", "deviation": "will_replace_ignored",
     "signatures": hooks_lib.DEVIATIONS["will_replace_ignored"],
     "what": "sendWillLocked delivers the original will when OnWillPublish replaced req.Message (server/server.go: deliverMessage(clientID, msg, ..) instead of req.Message)"},
    {"status": "open", "property": "C14", "deviation": "rewrite_routed_by_packet_topic",
     "signatures": hooks_lib.DEVIATIONS["rewrite_routed_by_packet_topic"],
     "what": "a PUBLISH whose topic OnMsgArrived rewrote is routed by the topic of the packet (IterationOptions.TopicName is fixed before the hook, server/client.go publishHandler): subscribers of the old topic receive it under the new name, subscribers of the new topic do not"},
    {"status": "open", "property": "C14", "signature": hooks_lib.SIG_LOST_CONNACK,
     "what": "a CONNECT rejected by an authentication hook sometimes gets no CONNACK at all (writeLoop may select `close` before `out`, server/client.go): the connection stays silent"},
    {"status": "open", "property": "C14",
     "signatures": ["verdict:connect:accept-enhanced2:resp", "verdict:connect:accept-enhanced2:sess", "verdict:connect:accept-enhanced2:will",
                    "verdict:connect:reject-enhanced2:resp"],
     "what": "enhanced authentication with a continuation (OnEnhancedAuth returns Continue) never completes: readLoop waits for `connected` after the first packet, the client's AUTH is not read, the OnAuth verdict is never asked and the CONNECT times out without CONNACK (server/client.go readLoop)"},
]


def run(ctx):
    quick = ctx.tier == "quick"
    rng = random.Random(ctx.seed)
    if os.environ.get("C14_ASSUME_KNOWN") == "1":
        have = {json.dumps(k.get("signatures") or k.get("signature")) for k in ctx.kf if k.get("property") == "C14"}
        ctx.kf += [k for k in PROPOSED if json.dumps(k.get("signatures") or k.get("signature")) not in have]
        ctx.notes.append("C14_ASSUME_KNOWN=1: the proposed known findings of checks/C14.py were treated as registered")
    open_devs = sorted({k["deviation"] for k in ctx.kf if k.get("property") == "C14" and k.get("status") == "open"
                        and k.get("deviation") in hooks_lib.DEVIATIONS})
    lost_known = any(k.get("property") == "C14" and k.get("status") == "open" and k.get("signature") == hooks_lib.SIG_LOST_CONNACK
                     for k in ctx.kf)
    ctx.cov["rule"] = (
        "composition: every emitted case (hook kind x sequence of <= 3 distinct plugins x exposing subset x core hook present) = one real "
        "broker with recording plugins + recording core, one event of the kind, recorded call log of the kind == demanded nested log "
        "(non-trivial = at least two calls demanded); quick replays a seeded sample, thorough all cases. "
        "verdicts: every (state, request, verdict) transition of SpecV with a history shorter than the depth bound = one fresh broker, "
        "prefix replayed, pre-state compared through ClientService/SubscriptionService/RetainedService, request sent by an mqttwire "
        "client while the core hook returns the scripted verdict, then CONNACK/SUBACK/UNSUBACK/PUBACK/PUBREC codes, deliveries to an "
        "independent observer and to the subject, and the service snapshots compared (non-trivial = history not empty); "
        "strict pass + pass with the open deviations; rejected CONNECTs at volume over all CONNACK failure codes")
    ctx.assumptions += [
        "one subject client, filters t/1 t/2, observer '#' QoS2; request and verdict alphabets as listed in lib/hooks_lib.py",
        "reject verdicts use failure reason codes (>= 0x80, or a plain Go error => 0x80); v3 clients: any non-zero CONNACK return "
        "code, SUBACK 0x80, PUBACK/UNSUBACK carry no code",
        "take-over by an accepted CONNECT is not modelled here (C05); a rejected CONNECT may hit an online client id",
        "a lost CONNACK is recognised by silence for 4 s or end of connection",
        "multi-step enhanced authentication (AUTH continuation) is probed by 8 transitions only",
    ]
    ctx.go_build(["./cmd/hooks"])

    codes = {"conn": hooks_lib.pick(rng, hooks_lib.CONNACK_CODES, 1 if quick else 2),
             "sub": hooks_lib.pick(rng, hooks_lib.SUBACK_CODES, 1 if quick else 2),
             "unsub": hooks_lib.pick(rng, hooks_lib.UNSUBACK_CODES, 1),
             "pub": hooks_lib.pick(rng, hooks_lib.PUBACK_CODES, 1 if quick else 2)}
    depth = 3 if quick else 4
    pubreqs, subreqs = hooks_lib.quick_alphabet(rng) if quick else (None, None)
    results, errors = {}, []
    lock = threading.Lock()

    def job(name, fn):
        def body():
            try:
                r = fn()
                with lock:
                    results[name] = r
            except Exception as e:      # re-raised in the main thread
                with lock:
                    errors.append((name, e))
        t = threading.Thread(target=body, name=name)
        t.start()
        return t

    vers = [(5, 5, ("basic", "enhanced")), (4, 4, ("basic",)), (3, 4, ("basic",))]    # (3, 4): MQTT 3.1 on the wire, v3 rules in the model
    par = 8 if quick else 6
    threads = [job("compose", lambda: hooks_lib.compose(ctx, permille=250 if quick else 1000, par=16)),
               job("connrate", lambda: hooks_lib.connack_rate(ctx, 600 if quick else 6000, par=8)),
               job("probe_enhanced2", lambda: hooks_lib.verdict(ctx, 5, maxdepth=1, auth=("enhanced2",), par=8, name="HooksVerdict_e2",
                                                                codes=codes))]
    big = (5, 4)[ctx.seed % 2]                  # quick: the seed picks the version that gets the deeper histories
    for wire, model, auth in vers:
        d = ((depth if wire == big else depth - 1) if wire != 3 else 2) if quick else (depth if wire != 3 else 3)
        # While deviations are open most deep states lie behind a diverging step and cannot be established on the code in the
        # strict pass (they are skipped), so the strict pass stays one step shallower and the pass with the deviations on is the
        # one that covers the full depth.  Without open deviations the strict pass is the only one and goes to the full depth.
        ds = d if (quick or not open_devs) else d - 1
        # the model with the deviations on has a small state graph (hundreds of states): thorough explores it completely
        dl = d if (quick or wire == 3) else 9
        threads.append(job("strict_v%d" % wire, lambda wire=wire, model=model, auth=auth, ds=ds: hooks_lib.verdict(
            ctx, model, wire_ver=wire, maxdepth=ds, codes=codes, auth=auth, par=par, name="HooksVerdict_v%d_strict" % wire,
            pubreqs=pubreqs, subreqs=subreqs)))
        if open_devs:
            threads.append(job("lenient_v%d" % wire, lambda wire=wire, model=model, auth=auth, d=dl: hooks_lib.verdict(
                ctx, model, wire_ver=wire, deviations=open_devs, maxdepth=d, codes=codes, auth=auth, par=par,
                tolerate_lost_connack=lost_known, name="HooksVerdict_v%d_dev" % wire, pubreqs=pubreqs, subreqs=subreqs)))
    for t in threads:
        t.join()
    for name, e in errors:
        if isinstance(e, vlib.MachineryError):
            raise vlib.MachineryError("%s: %s" % (name, e))
    for name, e in errors:
        raise e

    reported = set()

    def report(d, kind, extra):
        sig = d["signature"]
        if (kind, sig) in reported:
            return
        reported.add((kind, sig))
        obj = {"signature": sig, "kind": kind, "line": d.get("line"), "extra": d.get("extra")}
        obj.update(extra)
        ctx.violation(d["what"], obj)

    machinery = 0
    unconfirmed = 0
    trouble = []
    # ---- (a) composition
    summary, divs, res = results["compose"]
    ctx.cov["states"] += res.distinct
    ctx.cov["transitions"] += res.generated
    ctx.cov["traces_validated_against_impl"] += summary["n"]
    ctx.cov["evaluations"] += summary["n"]
    ctx.cov["distinct_nontrivial"] += summary["nontrivial"]
    machinery += summary["counters"].get("machinery", 0)
    trouble += summary.get("trouble") or []
    ctx.cov["composition"] = {"cases_emitted": summary["emitted"], "cases_replayed": summary["n"], "per_kind": summary["per_kind"],
                              "divergent_cases": summary["divergences"], "exhaustive": summary["n"] == summary["emitted"]}
    if len(summary["per_kind"]) != len(hooks_lib.KINDS):
        raise vlib.MachineryError("composition: only %d of %d hook kinds were exercised" % (len(summary["per_kind"]), len(hooks_lib.KINDS)))
    for s in summary["samples"][:1]:
        ctx.sample({"composition_case": s})
    vlib.log("[C14] composition: %d of %d cases replayed (%d kinds), %d divergent" % (
        summary["n"], summary["emitted"], len(summary["per_kind"]), summary["divergences"]))
    for d in divs:
        report(d, "hook-composition", {"replay": "hooks -mode compose"})

    # ---- (b) verdicts
    ctx.cov["verdicts"] = {}
    strict_sigs = set()
    for name in sorted(results):
        if not (name.startswith("strict_") or name.startswith("lenient_") or name == "probe_enhanced2"):
            continue
        summary, divs, res = results[name]
        ctx.cov["states"] += res.distinct
        ctx.cov["transitions"] += res.generated
        ctx.cov["traces_validated_against_impl"] += summary["n"]
        ctx.cov["evaluations"] += summary["n"]
        ctx.cov["distinct_nontrivial"] += summary["nontrivial"]
        machinery += summary["counters"].get("machinery", 0)
        trouble += summary.get("trouble") or []
        unconfirmed += summary["unconfirmed"]
        ops = {k[3:]: v for k, v in summary["counters"].items() if k.startswith("op:")}
        ctx.cov["verdicts"][name] = {"transitions_emitted": summary["emitted"], "replayed": summary["n"],
                                     "skipped_prestate_unreachable_on_code": summary["skipped_prestate"],
                                     "divergences": summary["divergences"], "rejected_connects": summary["rejected_connects"],
                                     "lost_connack": summary["lost_connack"], "by_request_and_verdict": ops, "model_states": res.distinct,
                                     "search_depth": res.depth, "max_history": summary.get("maxdepth"),
                                     "complete_state_graph": bool(summary.get("maxdepth")) and res.depth <= summary["maxdepth"]}
        vlib.log("[C14] %-16s %6d transitions emitted, %6d replayed, %5d skipped (pre-state not reachable on the code), %d divergences" % (
            name, summary["emitted"], summary["n"], summary["skipped_prestate"], summary["divergences"]))
        if summary["samples"]:
            ctx.sample({"verdict_transition": summary["samples"][0], "run": name})
        lenient = name.startswith("lenient_")
        for d in divs:
            if lenient:
                # with the open deviations on, the model mirrors the code: nothing may differ
                d = dict(d)
                d["what"] = "with deviations %s enabled: %s" % (",".join(open_devs), d["what"])
                d["signature"] = "dev:" + d["signature"]
                report(d, "hook-verdict-transition", {"ver": summary["ver"], "deviations": open_devs})
            else:
                strict_sigs.add(d["signature"])
                report(d, "hook-verdict-transition", {"ver": summary["ver"], "deviations": []})
        if lenient and summary["skipped_prestate"] and not divs:
            raise vlib.MachineryError("%s: %d transitions skipped although nothing diverged" % (name, summary["skipped_prestate"]))
        if name.startswith("strict_") and summary["skipped_prestate"] and not divs:
            raise vlib.MachineryError("%s: %d transitions skipped although nothing diverged" % (name, summary["skipped_prestate"]))
    # a deviation that is registered as open but no longer shows: the finding is stale (or fixed) - say so
    for dev in open_devs:
        if dev == "reauth_wrappers_unapplied":
            continue
        if not (set(hooks_lib.DEVIATIONS[dev]) & strict_sigs):
            ctx.notes.append("open deviation %s did not show in the strict pass" % dev)

    # ---- rejected CONNECTs at volume
    summary, divs = results["connrate"]
    machinery += summary["counters"].get("machinery", 0)
    ctx.cov["traces_validated_against_impl"] += summary["attempts"]
    ctx.cov["evaluations"] += summary["attempts"]
    rate = (100.0 * summary["lost"] / summary["attempts"]) if summary["attempts"] else 0.0
    ctx.cov["rejected_connects"] = {"attempts": summary["attempts"], "without_connack": summary["lost"], "percent": round(rate, 2),
                                    "left_open_and_silent": summary["lost_left_open"], "wrong_code": summary["wrong_code"],
                                    "left_state_behind": summary["leftovers"], "variants": summary["variants"],
                                    "reason_codes": summary["codes"]}
    vlib.log("[C14] rejected CONNECTs: %d attempts, %d without CONNACK (%.2f%%), %d wrong code, %d left state behind" % (
        summary["attempts"], summary["lost"], rate, summary["wrong_code"], summary["leftovers"]))
    for d in divs:
        report(d, "rejected-connect-volume", {"attempts": summary["attempts"], "lost": summary["lost"]})

    if machinery:
        raise vlib.MachineryError("%d cases could not be executed by the driver even after two retries:\n  %s" % (machinery, "\n  ".join(trouble[:5])))
    if unconfirmed > 5:
        raise vlib.MachineryError("%d divergences did not show again on a second broker: machinery not trustworthy on this machine" % unconfirmed)
    ctx.cov["timing_unconfirmed"] = unconfirmed
    ctx.cov["exhaustive"] = not quick
    ctx.cov["alphabet"] = {"publish_requests": pubreqs or hooks_lib.PUBREQS, "subscribe_requests": subreqs or hooks_lib.SUBREQS,
                           "unsubscribe_requests": hooks_lib.UNSUBREQS, "reason_codes": {k: list(v) for k, v in codes.items()},
                           "wills": hooks_lib.WILLS[1:], "history_bound": depth}
    ctx.cov["open_deviations"] = open_devs
