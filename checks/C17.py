"""C17 - federation routing: a non-retained message goes once to precisely the peers that need it, never back, never
re-forwarded; retained messages reach every peer's retained store (an empty payload clears); a share group spanning
nodes is served exactly once in the federation; nodes without a matching subscription receive nothing.

FedRoute.tla (implementation-shaped forwarding decision of plugin/federation/hooks.go sendMessage + receive path of
eventStreamHandler, views converged) is explored exhaustively by TLC per pack; EVERY generated transition is replayed on
three real Federation objects (real hook wrappers, real peer queues as the record of what was forwarded, real
Hello/eventStreamHandler on the receivers with a recording Publisher, real retained and subscription stores); the
clauses of C17 are evaluated on what was observed.  See DESIGN.md C17."""
import threading
import vlib, fed_lib

LEVEL = "model_checking"
NODES = ["n1", "n2", "n3"]

# filter pools: plain, wildcard, two share groups (also two shared filters of one group), '$'
MIXED = [
    ["t", "#", "$share/g1/t", "$share/g2/+"],
    ["t", "+", "$share/g1/t", "$share/g2/t"],
    ["#", "$share/g1/t", "$share/g1/+", "$s/x"],
    ["t", "$share/g1/#", "$share/g2/t", "$s/#"],
]
RR = [
    ["t", "$share/g1/t", "$share/g2/t"],
    ["#", "$share/g1/t", "$share/g1/+"],
    ["+", "$share/g1/t", "$share/g2/#"],
]
SYS = ["$s/#", "$s/x", "#", "+/x", "$share/g1/$s/x"]
ALL = ("plain", "ret", "clear")


def plan(ctx):
    s = ctx.seed
    mixed = MIXED[s % len(MIXED)]
    rr = RR[(s // 2) % len(RR)]
    if ctx.tier == "quick":
        return [
            # (name, clients, filters, topics, max subs, max publications, kinds)
            ("mixed", ["c1"], mixed, ["t", "$s/x"], 3, 1, ALL),
            ("roundrobin", ["c1"], rr, ["t"], 2, 2, ("plain",)),
            # '$'-topics in every quick run, whatever the seed's filter pool
            ("sysq", ["c1"], ["$s/#", "$s/x", "+/x", "$share/g1/$s/x"], ["$s/x"], 2, 1, ("plain", "ret")),
        ]
    return [
        ("mixed5", ["c1"], mixed + [f for f in ["$s/x", "t"] if f not in mixed][:1], ["t", "$s/x"], 3, 1, ALL),
        ("roundrobin", ["c1"], rr, ["t"], 3, 2, ALL),
        ("weights", ["c1", "c2"], RR[0], ["t"], 3, 2, ("plain",)),
        ("foursubs", ["c1"], RR[(s // 2 + 1) % len(RR)], ["t"], 4, 1, ALL),
        ("sys", ["c1"], SYS, ["$s/x", "a/x"], 3, 1, ALL),
        ("foursubs_mixed", ["c1"], MIXED[(s + 1) % len(MIXED)], ["t"], 4, 1, ("plain",)),
        ("weights_all", ["c1", "c2"], RR[(s // 2 + 2) % len(RR)], ["t"], 3, 1, ALL),
    ]


def run(ctx):
    ctx.cov["rule"] = (
        "every (state, action) pair of FedRoute.tla reachable within the pack's bounds is replayed on three fresh real Federation "
        "objects (prefix = shortest path, subscription changes propagated through the real queues and eventStreamHandler); for a "
        "publication the driver compares: peers an event was queued for (and that it is one event), drop / IterationOptions "
        "returned by OnMsgArrived or OnWillPublish, what a delivery with these options reaches in the origin's store, what "
        "Publisher.Publish reaches on every receiver, that no receiver queues anything, round-robin counters, retained stores, "
        "mirrored views and reference counts; the clauses ForwardedIffNeeded, NoEcho, NonSharedEverywhere, GroupOnce, "
        "RetainedEverywhere are evaluated on the observed outcome; non-trivial = history of at least one step")
    ctx.assumptions += [
        "three nodes, views converged before a publication (a subscription change includes its propagation)",
        "Publisher.Publish on a receiver is a delivery with TypeAll (server/publish_service.go) and a delivery serves exactly one "
        "member of every matched share group (C11)",
        "bounded subscriptions and publications per history; filter / topic packs chosen by the seed",
        "a third of the publications go through OnWillPublishWrapper (its returned options are compared; the core ignoring them "
        "for will messages is outside this binding)",
    ]
    fed_lib.build(ctx)
    if getattr(ctx, "replay", None):
        fed_lib.replay(ctx, "C17")
        return
    packs = plan(ctx)
    results = [None] * len(packs)
    errors = []
    sem = threading.Semaphore(2)

    def work(i, p):
        name, clients, filters, topics, ms, mp, kinds = p
        with sem:
            try:
                results[i] = fed_lib.run_route_pack(ctx, name, NODES, clients, filters, topics, ms, mp, workers=5,
                                                    drv_workers=8, kinds=kinds)
            except Exception as e:      # noqa: re-raised in the main thread
                errors.append(e)

    ths = [threading.Thread(target=work, args=(i, p)) for i, p in enumerate(packs)]
    for t in ths:
        t.start()
    for t in ths:
        t.join()
    if errors:
        raise errors[0]
    alldivs, summaries = [], []
    for p, (summary, divs, pack) in zip(packs, results):
        vlib.log("[C17] pack %-10s filters=%s transitions=%d clause-violating publications=%d divergences=%d" % (
            p[0], p[2], summary["n"], summary.get("bad_states", 0), summary["divergences"]))
        ctx.cov["traces_validated_against_impl"] += summary["n"]
        ctx.cov["evaluations"] += summary["n"]
        ctx.cov["distinct_nontrivial"] += summary["nontrivial"]
        ctx.cov.setdefault("packs", []).append(pack)
        for smp in summary["samples"][:1]:
            ctx.sample({"pack": p[0], "transition": smp})
        alldivs += divs
        summaries.append(summary)
    ctx.cov["exhaustive"] = not any(pk.get("stopped_early") for pk in ctx.cov["packs"])
    fed_lib.report(ctx, "C17", "fedroute", alldivs, summaries)
