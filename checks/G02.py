"""G02 (growth beyond the listed properties; not in MANIFEST.json, raises no VIOLATION line): SUBSCRIBE / UNSUBSCRIBE reason
codes.  spec/SubAck.tla defines, for every history of up to Depth SUBSCRIBE / UNSUBSCRIBE packets (1..3 entries, the same
filter twice, shared and non-shared filters, No Local) of one session under MQTT 3.1.1 / 5 and both delivery modes, the
acknowledgement MQTT demands (SUBACK / UNSUBACK reason code per entry, DISCONNECT 0x82 for No Local on a shared filter), the
subscriptions left behind and the copies a later publication delivers.  TLC checks the design-level statements
(GrantWithinRequest, StateIsHistory, UnsubTruthful), every history is replayed on a real broker, and differences are
reported as OBSERVATION lines grouped by the named as-coded deviation that explains them (DESIGN.md 11)."""
import vlib, suback_lib as sl

LEVEL = "model_checking"

EXPLAINS = {
    "dup_filter_code_of_last_entry": ["ack:sub:"],
    "unsuback_always_success": ["ack:unsub:v5:want=unsuback"],
}


def run(ctx):
    full = ctx.tier != "quick"
    depth = 3 if full else 2
    d0 = sl.design(ctx, full, depth, [], "demanded")
    if d0.violation or d0.rc != 0:
        raise vlib.MachineryError("the demanded outcomes of SubAck.tla break its own statements (model bug):\n" + (d0.violation or "\n".join(d0.tail[-20:])))
    d1 = sl.design(ctx, full, min(depth, 2), sl.DEVIATIONS, "ascoded")
    ctx.cov["states"] += d0.distinct
    ctx.cov["design_level"] = {"histories": d0.distinct, "demanded_outcomes_hold": True,
                               "as_coded_outcomes_violate": (d1.violation or "").splitlines()[0] if d1.violation else None}
    s, divs, res = sl.replay(ctx, full, depth, [], "strict")
    ctx.cov["traces_validated_against_impl"] += s["n"]
    ctx.cov["evaluations"] += s["n"]
    ctx.cov["distinct_nontrivial"] += s["nontrivial"]
    by = {k[4:]: v for k, v in s["counters"].items() if k.startswith("div:")}
    unexplained, hits = [], {}
    for sig, n in sorted(by.items()):
        dev = next((d for d, pats in EXPLAINS.items() if any(sig.startswith(p) for p in pats)), None)
        if dev is None:
            unexplained.append((sig, n))
        else:
            hits[dev] = hits.get(dev, 0) + n
    for dev, n in sorted(hits.items()):
        ex = next((d for d in divs if any(d["signature"].startswith(p) for p in EXPLAINS[dev])), None)
        vlib.log("OBSERVATION: growth=G02 deviation=%s cases=%d e.g. %s" % (dev, n, (ex or {}).get("what", "")[:500]))
    s2, divs2, _ = sl.replay(ctx, full, depth, sl.DEVIATIONS, "ascoded")
    ctx.cov["traces_validated_against_impl"] += s2["n"]
    ctx.cov["evaluations"] += s2["n"]
    ctx.cov["as_coded_divergences"] = {k[4:]: v for k, v in s2["counters"].items() if k.startswith("div:")}
    ctx.cov["observations"] = hits
    ctx.cov["rule"] = ("every history of SubAck.tla up to depth %d replayed twice on real brokers (demanded outcomes; outcomes with the "
                       "named as-coded deviations, which must then agree exactly); non-trivial = every acknowledgement and every probe "
                       "delivery as predicted" % depth)
    for s_ in s2.get("samples", [])[:2]:
        ctx.sample({"case": s_})
    for sig, n in unexplained:
        vlib.log("UNEXPLAINED: growth=G02 %s x%d" % (sig, n))
    for d in divs2[:10]:
        vlib.log("UNEXPLAINED (with the as-coded deviations): growth=G02 %s: %s" % (d["signature"], d["what"][:500]))
    ctx.cov["unexplained"] = len(unexplained) + len(divs2)
    if unexplained or divs2:
        ctx.notes.append("growth check G02 has unexplained differences")
