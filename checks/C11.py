"""C11 – shared subscriptions: each message goes to exactly one live member per group.
Store layer: SubStore.tla transition-coverage replay over share-group alphabets; broker layer: trace validation of
membership-churn scenarios against Broker.tla (group obligations: any member may be picked, exactly one is);
design level: BrokerOp.tla (operational pick) refines the obligations. See DESIGN.md §C11."""
import random
import vlib, substore_lib, trace_lib, scen, brokerop_lib

LEVEL = "model_checking"
INV = ("IdsDistinct", "SubsKeyed", "OneConnPerId")

PACKS = {
    "groups":  ["$share/g1/t", "$share/g2/t", "$share/g1/+", "t", "#"],
    "nested":  ["$share/g1/t", "$share/g1/t/u", "$share/g2/t/u", "t/u", "$share/g1/#"],
    "sysgrp":  ["$share/g1/$s/x", "$share/g1/#", "$share/g2/+/x", "$s/x", "$share/g1/+"],
}


def run(ctx):
    rng = random.Random(ctx.seed)
    quick = ctx.tier == "quick"
    ctx.cov["rule"] = ("store layer: every transition of SubStore.tla over share-group packs (3 clients) replayed on the real store; "
                       "broker layer: seeded churn scenarios (join, leave by UNSUBSCRIBE / session end / abort / clean take-over, same client "
                       "in two groups, groups next to non-shared filters, wildcard and '$' filters) followed by numbered publications, and scenarios with 2-3 "
                       "groups plus a non-shared subscription on ONE filter (the same client in several of them, members leaving one group), "
                       "traces validated by TLC against Broker.tla; non-trivial = a share group matched a publication")
    names = sorted(PACKS)
    plan = [(names[ctx.seed % len(names)], ["c1", "c2", "c3"], 2, 2, 2)] if quick else [(n, ["c1", "c2", "c3"], 2, 3, 2) for n in names]
    for name, clients, nopts, maxlive, depth in plan:
        summary, divs, meta = substore_lib.run_pack(ctx, "c11" + name, clients, PACKS[name], nopts, maxlive, maxlive + 1, depth, sys_levels=("$s",))
        vlib.log("[C11] pack %-7s transitions=%d divergences=%d" % (name, summary["n"], summary["divergences"]))
        seen = set()
        for d in divs:
            if d["signature"] in seen:
                continue
            seen.add(d["signature"])
            ctx.violation(d["what"], {"signature": "store:" + d["signature"], "kind": "substore-transition", "pack": name, "meta": meta,
                                      "transition": d.get("line")})
    if quick:
        brokerop_lib.run(ctx, "plain", ["overlap", "onlyonce"][ctx.seed % 2], maxsubops=2)
    else:
        for mode in ("overlap", "onlyonce"):
            brokerop_lib.run(ctx, "plain", mode, nopts=3, pubqos=(0, 1, 2), timeout=3000)
            brokerop_lib.run(ctx, "sys", mode, nopts=2, timeout=3000)
    scs = scen.c11_churn(rng, "s%d" % ctx.seed, 100 if quick else 1200) + scen.c11_samefilter(rng, "s%d" % ctx.seed, 60 if quick else 600)
    scs = scen.with_props(rng, scs, prob=0.2)
    rejected, stats = trace_lib.validate(ctx, scs, "c11", invariants=INV)
    ctx.cov["traces_validated_against_impl"] += stats["validated"] + stats["rejected"]
    ctx.cov["evaluations"] += stats["events"]
    ctx.cov["distinct_nontrivial"] += stats["scenarios"]
    ctx.cov["scenarios"] = stats
    trace_lib.confirm(ctx, rejected, INV)
