"""C09 - durable (redis) sessions survive a crash of the broker between any two storage commands (DESIGN.md §C09).

 1. design level: TLC on spec/DurableMC.tla (spec/Durable.tla with 2 clients, 2 filters, 2 messages): with the demanded
    command order RecoverableAfterCrash / StartupTotal hold at every state (Crash between any two commands, Recover =
    start-up); thorough: every as-coded deviation switched on alone must violate RecoverableAfterCrash (self-test).
 2. trace validation: seeded client histories against a real in-process broker with persistence.type = redis on the
    RESP fake; spec/TraceDurable.tla explains the command journal + acknowledgement markers as a behaviour of
    Durable.tla and prints, per journal prefix, the `required` state.
 3. fault enumeration: a NEW broker is started on every journal prefix (quick: every prefix of 24 histories; thorough:
    every prefix of 200 histories) and compared with `required`: start-up succeeds, sessions, subscriptions with
    options, redelivery on CONNECT with Clean Start 0, QoS2 identifiers awaiting PUBREL.

  ./check C09 quick|thorough          VERIF_SEED drives histories and (when sampling) the prefixes
  ./check C09 quick --replay <file>   re-records the stored history and restarts on every prefix of the new journal
"""
import json, random
import vlib, durable_lib as dl

LEVEL = "fault_enumeration"

TV_WHAT = {
    "hdel_slice_arg": "UNSUBSCRIBE: the journal shows `HDEL sub:<cid> \"[<filter>]\"` - the Go slice of filters is sent as ONE "
                      "argument (persistence/subscription/redis/subscription.go Unsubscribe), so the stored subscription is not removed "
                      "although UNSUBACK is sent",
    "phantom_session": "CONNECT with Clean Start 1 that finds no stored session issues `DEL session:` and `DEL sub:` for the EMPTY client id "
                       "(session/redis/store.go Get returns a non-nil empty session for a missing key; server.go registerClient terminates it)",
    "session_deleted_before_subs": "a session is removed by DEL queue:<cid>, DEL session:<cid>, DEL sub:<cid> (server.go removeSessionLocked): "
                                   "a crash after DEL session leaves sub:<cid> behind, and a later session with that client id adopts it",
}


def example(recs, h, k, ctxlines=8):
    """journal lines around entry k of history h (abstracted), for the replay artefact"""
    ent = recs[h]["entries"]
    return [e["ev"] for e in ent[max(0, k - ctxlines):k]]


def steps_until(hist, recs, h, k):
    """the client steps of the history that had been started when journal entry k was written (the minimal history)"""
    ntry = sum(1 for e in recs[h]["entries"][:k] if e["ev"].get("e") in ("try", "got", "crash"))
    out, n = [], 0
    for s in hist["steps"]:
        if n >= ntry:
            break
        out.append(s)
        if s["op"] in ("connect", "subscribe", "unsubscribe", "publish", "pubrel", "cack", "close", "recv", "crash"):
            n += 1
    return out


def report_journal(ctx, outs, recs, by_id):
    """command-level deviations the specification needed, and acknowledged facts the journal prefix does not hold"""
    used_first, lost_first = {}, {}
    for (h, k), o in sorted(outs.items()):
        for d in o["used"]:
            if d not in used_first or (k, h) < used_first[d]:
                used_first[d] = (k, h)
        for x in o["lost"]:
            if x["what"] not in lost_first or (k, h) < lost_first[x["what"]][:2]:
                lost_first[x["what"]] = (k, h, x)
        if not o["sok"]:
            lost_first.setdefault("startup", (k, h, {"what": "startup"}))
    for d, (k, h) in sorted(used_first.items()):
        ctx.violation("command journal deviates from the demanded commands: " + TV_WHAT.get(d, d),
                      {"signature": "tv:" + d, "kind": "journal-deviation", "history": {**by_id[h], "steps": steps_until(by_id[h], recs, h, k)},
                       "k": k, "journal": example(recs, h, k)})
    for w, (k, h, x) in sorted(lost_first.items()):
        ctx.violation("an acknowledgement marker is in the journal but the store at that prefix does not agree with the acknowledged facts "
                      "(%s %s of %s): start-up on that prefix cannot yield them" % (w, x.get("x", ""), x.get("c", "")),
                      {"signature": "tv:ack_without_durable_fact:" + w, "kind": "journal-order",
                       "history": {**by_id[h], "steps": steps_until(by_id[h], recs, h, k)}, "k": k, "lost": x, "journal": example(recs, h, k)})
    ctx.cov["journal"] = {"deviations_used": sorted(used_first), "ack_without_durable_fact": sorted(lost_first)}


def run(ctx):
    quick = ctx.tier == "quick"
    rng = random.Random(ctx.seed)
    if getattr(ctx, "replay", None):
        return replay(ctx, rng)

    # ---- 1. design level
    maxops, maxcrash = (4, 1) if quick else (6, 1)
    res = dl.design_check(ctx, maxops, maxcrash, workers=8)
    if res.violation or res.rc != 0:
        raise vlib.MachineryError("design-level check of Durable.tla failed (model bug: the demanded command order must satisfy "
                                  "RecoverableAfterCrash):\n" + (res.violation or "\n".join(res.tail[-20:]))[:3000])
    design = {"maxops": maxops, "maxcrash": maxcrash, "states": res.distinct, "transitions": res.generated, "depth": res.depth}
    if not quick:
        res2 = dl.design_check(ctx, 5, 2, workers=8, name="DurableMC_5_2")
        if res2.violation or res2.rc != 0:
            raise vlib.MachineryError("design-level check of Durable.tla (two crashes) failed:\n" + (res2.violation or "")[:3000])
        design["two_crashes"] = {"maxops": 5, "maxcrash": 2, "states": res2.distinct, "transitions": res2.generated}
        caught = {}
        for d in dl.CMD_DEVIATIONS[:1] + dl.CMD_DEVIATIONS[2:] + dl.RECOVER_DEVIATIONS:
            r = dl.design_check(ctx, 6, 1, deviations=[d], workers=8, name="DurableMC_dev_" + d, count=False)
            caught[d] = bool(r.violation and "RecoverableAfterCrash" in r.violation)
        design["deviation_violates_invariant"] = caught
        if not all(caught.values()):
            raise vlib.MachineryError("self-test: an as-coded deviation does not violate RecoverableAfterCrash in the model: %s" % caught)
    ctx.cov["design"] = design

    # ---- 2. histories on the real broker, journal validated by TraceDurable.tla
    nh = 24 if quick else 200
    hists = dl.gen_histories(rng, nh, "s%d_" % ctx.seed)
    by_id = {h["id"]: h for h in hists}
    recs, jp, rstats = dl.record(ctx, hists, par=8)
    fatal = [r for r in recs.values() if r.get("fatal")]
    if len(fatal) > max(1, nh // 20):
        raise vlib.MachineryError("%d of %d histories could not be executed, first: %s: %s" % (len(fatal), nh, fatal[0]["id"], fatal[0]["fatal"]))
    outs, rejected = dl.validate(ctx, recs, jvms=3 if quick else 6)
    ctx.cov["traces_validated_against_impl"] += len(recs) - len(fatal)
    ctx.cov["histories"] = {"generated": nh, "executed": len(recs) - len(fatal), "not_executable": len(fatal),
                            "kinds": {k: sum(1 for h in hists if h["kind"].split(":")[0] == k) for k in ("single", "lives", "orphan")},
                            "journal_entries": rstats["entries"], "journal_commands": rstats["commands"],
                            "journals_rejected": len(rejected), "unexpected_publish_notes": sum(
                                1 for r in recs.values() for n in (r.get("notes") or []) if n.startswith("unexpected PUBLISH"))}
    for r in fatal[:3]:
        ctx.notes.append("history %s not executable: %s" % (r["id"], r["fatal"]))

    # 2a. journals the specification cannot explain
    for rj in rejected:
        ev = rj["event"] or {}
        kind = ev.get("e", "?") + ":" + (ev.get("cmd", ev.get("op", "")) + (" " + ev.get("key", "") if ev.get("e") == "cmd" else ""))
        ctx.violation("journal of history %s is not a behaviour of Durable.tla at entry %s: %s" % (rj["h"], rj["k"], json.dumps(ev)[:300]),
                      {"signature": "tv:rejected:" + kind.strip(), "kind": "journal", "history": by_id[rj["h"]], "k": rj["k"], "event": ev,
                       "before": rj["before"]})
    report_journal(ctx, outs, recs, by_id)

    # ---- 3. fault enumeration
    cases = dl.plan_prefixes(rng, recs, outs, None)
    # thorough: at most 120 restarts per second (sockets in TIME_WAIT on a shared machine)
    results, fstats = dl.restart(ctx, jp, cases, par=16, rate=0 if quick else 120)
    trouble = [r for r in results if r.get("trouble")]
    if len(trouble) > max(3, len(results) // 100):
        raise vlib.MachineryError("%d of %d restarts gave no verdict, first: %s" % (len(trouble), len(results), trouble[0]["trouble"]))
    for r in trouble[:3]:
        ctx.notes.append("restart on %s prefix %d: no verdict: %s" % (r["h"], r["k"], r["trouble"]))
    ctx.cov["evaluations"] += len(results)
    ctx.cov["distinct_nontrivial"] += sum(1 for c in cases if c["nontrivial"])
    ctx.cov["restarts"] = {"prefixes_restarted": len(results), "facts_compared": fstats["checked"], "without_verdict": len(trouble),
                           "sessions_reconnected": sum(r["sessions"] for r in results),
                           "subscriptions_compared": sum(r["nsubs"] for r in results),
                           "messages_that_had_to_be_redelivered": sum(r["nmust"] for r in results),
                           "messages_that_must_not_be_redelivered": sum(r["ndone"] for r in results),
                           "qos2_ids_probed": sum(r["nids"] for r in results),
                           "first_resumes_with_receive_maximum_1": sum(r.get("small_window_resumes", 0) for r in results),
                           "exhaustive_over_recorded_journals": True}
    by_sig = {}
    for r in results:
        for d in r["divs"]:
            key = d["sig"]
            cur = by_sig.get(key)
            if cur is None or (r["k"], r["h"]) < (cur[0]["k"], cur[0]["h"]):
                by_sig[key] = (r, d, (cur[2] if cur else 0) + 1)
            else:
                by_sig[key] = (cur[0], cur[1], cur[2] + 1)
    ctx.cov["divergences_by_signature"] = {s: v[2] for s, v in sorted(by_sig.items())}
    for sig, (r, d, n) in sorted(by_sig.items()):
        h, k = r["h"], r["k"]
        req = next(c["req"] for c in cases if c["h"] == h and c["k"] == k)
        ctx.violation("restart on journal prefix %d of history %s: %s %s %s - %s (%d prefixes show it)" % (
            k, h, d["kind"], d.get("c", ""), d.get("x", ""), d.get("detail", "")[:300], n),
            {"signature": sig, "kind": "restart", "history": {**by_id[h], "steps": steps_until(by_id[h], recs, h, k)}, "k": k,
             "divergence": d, "required": req, "journal": example(recs, h, k, 12), "prefixes_showing_it": n})
    if hists:
        h0 = hists[0]
        ctx.sample({"history": h0["id"], "kind": h0["kind"], "clients": h0["clients"], "first_steps": h0["steps"][:10],
                    "first_journal_entries": example(recs, h0["id"], 8) if h0["id"] in recs else None})
    if cases:
        c0 = next((c for c in cases if c["nontrivial"] and c["req"]["msgs"]), cases[0])
        ctx.sample({"prefix": {"h": c0["h"], "k": c0["k"]}, "required": c0["req"]})
    ctx.cov["rule"] = (
        "histories: seeded random walks over persistent v3.1/v3.1.1/v5 clients (client ids with and without leading bytes in 'sub:'), one "
        "ephemeral publisher; subscribe/re-subscribe with all option values (QoS, No Local, RAP, Retain Handling, subscription id), shared and "
        "'$' filters, unsubscribe, QoS1/2 publishes to online and offline subscribers, withheld PUBACK / PUBREC without PUBCOMP / PUBLISH "
        "without PUBREL, re-sent DUP publishes, Clean Start 1 over a stored session, crashes between steps and inside a session removal; "
        "every journal is validated by TraceDurable.tla; evaluations = broker restarts, one per journal prefix with a distinct (store contents, "
        "required state) pair - every prefix of every recorded journal; distinct_nontrivial = those whose required state demands at least one "
        "session (hence its subscriptions/messages/ids) of the restarted broker")
    ctx.assumptions += [
        "the RESP fake (harness/resp, checked against spec/RespCmds.tla by cmd/respfake) stands in for redis; a crash of the broker is a "
        "journal prefix: the store holds exactly the commands issued so far",
        "acknowledgement markers are appended when the client has READ the acknowledgement (later than the real moment: never demands too much)",
        "alphabet by construction: a topic of family i is matched by exactly the filters of family i, at most one subscription per client and "
        "family, one member per share group (routing itself is C01/C02/C11)",
        "crashes inside a history are simulated by the store refusing all further commands (the broker is then stopped and a new one started)",
    ]


def replay(ctx, rng):
    obj = json.load(open(ctx.replay))
    hist = obj.get("history")
    if not hist:
        raise vlib.MachineryError("replay file has no history")
    hist = dict(hist)
    hist["id"] = hist.get("id", "replay")
    recs, jp, _ = dl.record(ctx, [hist], name="replay", par=1)
    r = recs[hist["id"]]
    if r.get("fatal"):
        raise vlib.MachineryError("replayed history not executable: " + r["fatal"])
    outs, rejected = dl.validate(ctx, recs, name="replay", jvms=1)
    for e in r["entries"]:
        vlib.log("%3d %s" % (e["k"], json.dumps({k: v for k, v in e["ev"].items() if v not in ("", 0, False) and k not in ("k",)})[:220]))
    for rj in rejected:
        ctx.violation("journal rejected at entry %s: %s" % (rj["k"], json.dumps(rj["event"])[:300]),
                      {"signature": "tv:rejected:replay", "history": hist, "k": rj["k"]})
    report_journal(ctx, outs, recs, {hist["id"]: hist})
    cases = dl.plan_prefixes(rng, recs, outs, None)
    results, _ = dl.restart(ctx, jp, cases, name="replay", par=8)
    ctx.cov["evaluations"] += len(results)
    ctx.cov["distinct_nontrivial"] += sum(1 for c in cases if c["nontrivial"])
    ctx.cov["traces_validated_against_impl"] += 1
    seen = {}
    for res in results:
        for d in res["divs"]:
            seen.setdefault(d["sig"], (res["k"], d))
    for sig, (k, d) in sorted(seen.items()):
        vlib.log("prefix %d: %s %s %s: %s" % (k, d["sig"], d.get("c", ""), d.get("x", ""), d.get("detail", "")[:200]))
        ctx.violation("replay: restart on prefix %d: %s %s %s" % (k, d["kind"], d.get("c", ""), d.get("x", "")),
                      {"signature": sig, "history": hist, "k": k, "divergence": d})
    ctx.cov["rule"] = "replay of one stored history: every prefix of the re-recorded journal"
    ctx.sample({"history": hist["id"], "steps": hist["steps"][:10]})
