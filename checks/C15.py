"""C15 - Concurrency: deadlock-free, Stop terminates (and race-free on the monitored executions).

Design level: spec/Conn.tla (PlusCal): the goroutines of a connection (read, write, hs/serve, poll, handle), setError with
sync.Once semantics, channels as bounded queues, socket state, queue/limiter condition variables, srv.mu, Stop, unfair
peers.  Whether a channel operation is guarded by `<-client.close` is read from the source at check time
(harness/cmd/chanops, go/ast) and passed to the model as the constant record Ops.
TLC: deadlock freedom, StopCalled ~> StopReturned, SockClosed ~> ClosedSignalled, nothing alive after StopReturned,
Unload/OnStop exactly once (and Responsive, OneRegistered) on packs of the model.

Binding: (1) for every named deviation (known finding) TLC searches the FAITHFUL model (no deviation) for the stuck
state behind it; the environment actions of that behaviour become a script that harness/cmd/conn runs on a real broker
under watchdogs (request 2 s, Stop 3 s, goroutine profile after Stop); only a reproduced divergence is reported.  (2) The model with all
deviations that the source has not repaired must satisfy every property on the source's constants (any counter-example is
converted and run the same way).  (3) A
fixed regression library of scripts.  (4) Free-running storms on a -race build; their lifecycle hook events are validated
by TLC against spec/TraceConn.tla.  See DESIGN.md C15 / B.4."""
import json, os, threading, time
import vlib, conn_lib as cl

LEVEL = "model_checking"


# ------------------------------------------------------------------------------------------------ packs of the model
def window_closed(ops):
    """per deviation: do the constants extracted from the source say that the defect behind it is repaired?"""
    return {
        "in_send_unguarded": ops["in_send_guard"],
        "seterror_blocks_in_once": ops["seterror_offer_in_once"] and not ops["seterror_write_in_once"],
        "unregistered_not_closed": ops["stop_tracks_all"] and (ops["writeloop_exit_closes_sock"] or ops["hsfail_closes_sock"]),
        "no_close_after_error": ops["writeloop_exit_closes_sock"],
        "will_timer_outlives_stop": False,          # (nothing in the extraction speaks about the will timer)
        "c05_relock_window": not ops["relock_window"],
    }


def packs(tier, ops_in_send_guard=False):
    """packs of the model; sizes measured with the constants of the repaired source (drain included)"""
    P = cl.pack
    ps = {
        "v3err":    P("v3err", rest=("bad",)),
        "resp":     P("resp", rest=("bad",), TrackOwed=True, props=cl.PROPS + ["Responsive"]),        # = v3err + Responsive
        "v5stall":  P("v5stall", rest=("ping", "bad"), v5=(1,), PeerReads=False, CapSock=0),
        # a v5 peer that never reads, room for one packet in the socket: CONNACK goes out, the DISCONNECT of a coded error is
        # written by writeLoop (main select or the drain of the close branch) and blocks there
        "v5drain":  P("v5drain", rest=("bad",), v5=(1,), PeerReads=False, CapSock=1),
        "hs":       P("hs", first=("connect", "badconnect"), rest=("ping",)),
        "hs0":      P("hs0", first=("connect", "badconnect"), rest=()),
        "will":     P("will", rest=("disc",), v5=(1,), WillDelay=True),
        "will0":    P("will0", rest=(), v5=(1,), WillDelay=True),
        "take":     P("take", rest=(), NConn=2, SameId=True, PriorSession=True, PeerMayClose=False, WithStop=False, deadlock=False),
    }
    if tier == "quick":
        # (measured at load 30-45 this model runs at ~2.5k states/s per JVM: the quick tier gets ~0.6M transitions)
        # when the source guards the in-send, three packets (CONNECT, error, one more) exercise both branches of that select
        b = 3 if ops_in_send_guard else 4
        ps.update({
            # CONNECT + one protocol error: setError, writeLoop's exit closing the socket, Responsive (the select of the guarded
            # in-send needs a third packet: pack v5drainq)
            "respq":    P("respq", rest=("bad",), TrackOwed=True, Budget=2 if ops_in_send_guard else 4, props=cl.PROPS + ["Responsive"]),
            "v5drainq": P("v5drainq", rest=("bad",), v5=(1,), PeerReads=False, CapSock=1, PeerMayClose=False, Budget=b),   # only Stop ends it
            "hsw":      P("hsw", first=("connect", "badconnect"), rest=(), v5=(1,), WillDelay=True),                       # handshake + will timer
        })
        expose = {"in_send_unguarded": "v3err", "seterror_blocks_in_once": "v5drain", "unregistered_not_closed": "hs0",
                  "will_timer_outlives_stop": "will0", "c05_relock_window": "take", "no_close_after_error": "resp"}
        green = ["respq", "v5drainq", "hsw"]
        return ps, expose, green
    expose = {"in_send_unguarded": "v3err", "seterror_blocks_in_once": "v5stall", "unregistered_not_closed": "hs",
              "will_timer_outlives_stop": "will", "c05_relock_window": "take", "no_close_after_error": "resp"}
    ps.update({
        "disc":     P("disc", rest=("disc", "ping")),
        "v3pb":     P("v3pb", rest=("ping", "bad")),
        "okack":    P("okack", rest=("ok", "ack")),
        "v5mal":    P("v5mal", rest=("mal",), v5=(1,), PeerReads=False, CapSock=0),
        "keep":     P("keep", rest=("bad",), KeepAlive=True),
        "api":      P("api", rest=("bad",), ApiCalls=1),
        "cap2":     P("cap2", rest=("bad",), CapIn=2, CapOut=2, Budget=5),
    })
    green = ["v3err", "resp", "hs", "will", "v5drain", "v5stall", "take", "disc", "v3pb", "okack", "v5mal", "keep", "api", "cap2"]
    return ps, expose, green


# ------------------------------------------------------------------------------------------------ regression library
def library(tier):
    c = lambda k, ver, cid, **kw: dict(dict(k=k, ver=ver, cid=cid, clean=True), **kw)
    S = lambda op, **kw: dict(op=op, **kw)
    lib = [
        {"id": "lib_in_send_after_protocol_error_v3", "kind": "script", "conns": [c(1, 4, "l1")],
         "steps": [S("connect", k=1), S("send", k=1, kind="connect"), S("send", k=1, kind="bad"), S("send", k=1, kind="ping", n=10), S("close", k=1)]},
        {"id": "lib_in_send_after_disconnect_v5", "kind": "script", "conns": [c(1, 5, "l2")],
         "steps": [S("connect", k=1), S("send", k=1, kind="connect"), S("send", k=1, kind="disc"), S("send", k=1, kind="ping", n=10), S("settle"), S("stop")]},
        {"id": "lib_seterror_disconnect_to_stalled_v5_peer", "kind": "script", "conns": [c(1, 5, "l3", smallbuf=True)],
         "steps": [S("connect", k=1), S("send", k=1, kind="connect"), S("stall", k=1), S("flood", k=1), S("send", k=1, kind="bad"), S("settle"), S("stop")]},
        {"id": "lib_coded_error_to_stalled_v5_peer_socket_full_out_not", "kind": "script", "conns": [c(1, 5, "l3b", smallbuf=True)],
         "steps": [S("connect", k=1), S("send", k=1, kind="connect"), S("stall", k=1), S("flood", k=1, n=140), S("send", k=1, kind="bad"), S("settle"), S("stop")]},
        {"id": "lib_takeover_of_stalled_v5_peer", "kind": "script", "conns": [c(1, 5, "same", smallbuf=True), c(2, 5, "same")],
         "steps": [S("connect", k=1), S("send", k=1, kind="connect"), S("stall", k=1), S("flood", k=1), S("settle"), S("connect", k=2), S("send", k=2, kind="connect")]},
        {"id": "lib_silent_connection_then_stop", "kind": "script", "conns": [c(1, 4, "l4")],
         "steps": [S("connect", k=1), S("stop")]},
        {"id": "lib_rejected_connect_then_stop", "kind": "script", "conns": [c(1, 4, "l5")],
         "steps": [S("connect", k=1), S("send", k=1, kind="badconnect"), S("settle"), S("stop")]},
        {"id": "lib_no_close_after_protocol_error_v3", "kind": "script", "conns": [c(1, 4, "l6")],
         "steps": [S("connect", k=1), S("send", k=1, kind="connect"), S("send", k=1, kind="bad"), S("send", k=1, kind="ping")]},
        {"id": "lib_close_after_protocol_error_v5", "kind": "script", "conns": [c(1, 5, "l7")],
         "steps": [S("connect", k=1), S("send", k=1, kind="connect"), S("send", k=1, kind="bad"), S("send", k=1, kind="ping")]},
        {"id": "lib_malformed_v5", "kind": "script", "conns": [c(1, 5, "l8")],
         "steps": [S("connect", k=1), S("send", k=1, kind="connect"), S("send", k=1, kind="mal"), S("send", k=1, kind="ping")]},
        {"id": "lib_delayed_will_then_stop", "kind": "script", "conns": [c(1, 5, "l9", willdelay=30, expiry=60)],
         "steps": [S("connect", k=1), S("send", k=1, kind="connect"), S("close", k=1), S("settle"), S("stop")]},
        {"id": "lib_terminate_session_and_stop", "kind": "script", "conns": [c(1, 4, "l10"), c(2, 5, "l11")],
         "steps": [S("connect", k=1), S("send", k=1, kind="connect"), S("connect", k=2), S("send", k=2, kind="connect"), S("send", k=1, kind="ok", n=3),
                   S("api", k=1, kind="terminate"), S("api", k=2, kind="publish"), S("send", k=2, kind="ping", n=2), S("stop")]},
        # a connection accepted WHILE Stop runs (its OnAccept hook returns only after Stop has returned): it must be refused and
        # closed, never registered behind Stop's back
        {"id": "lib_accept_during_stop", "kind": "script", "conns": [c(1, 4, "l13")],
         "steps": [S("armlate"), S("connect", k=1), S("stop"), S("send", k=1, kind="connect"), S("settle")]},
        # packets pipelined (same TCP write) behind a packet that makes the broker stop consuming client.in: they are read
        # before the broker can close the socket; readLoop must not stay parked on `in`, Stop must return
        {"id": "lib_pipelined_behind_protocol_error_v3", "kind": "script", "conns": [c(1, 4, "l14")],
         "steps": [S("connect", k=1), S("send", k=1, kind="connect"), S("send", k=1, kind="bad", tail=12), S("settle"), S("close", k=1), S("settle"), S("stop")]},
        {"id": "lib_pipelined_behind_first_packet_not_connect", "kind": "script", "conns": [c(1, 4, "l15")],
         "steps": [S("connect", k=1), S("send", k=1, kind="badconnect", tail=12), S("settle"), S("stop")]},
        {"id": "lib_pipelined_behind_disconnect_v5", "kind": "script", "conns": [c(1, 5, "l16")],
         "steps": [S("connect", k=1), S("send", k=1, kind="connect"), S("send", k=1, kind="disc", tail=12), S("settle"), S("stop")]},
        {"id": "lib_gate_two_connects_stored_session", "kind": "gate", "conns": [c(1, 4, "g1", clean=False)]},
        # lock order (spec/LockOrder.tla): a delivery parked under srv.mu + the subscription store's read lock, a SUBSCRIBE
        # announcing a writer, then a statistics read / a new client id; every request must still be answered
        {"id": "lib_lockorder_statsread", "kind": "lockorder", "conns": [c(1, 5, "statsread")]},
        {"id": "lib_lockorder_new_client", "kind": "lockorder", "conns": [c(1, 5, "touch")]},
        # the packet-id limiter's lock against a session queue's mutex: a resumed session parked at the persistence boundary in
        # pollInflights while a publication makes the full queue drop an expired in-flight message (pl.release under the queue mutex)
        {"id": "lib_lockorder_poll_inflights", "kind": "lockorder", "conns": [c(1, 5, "pollinfl")]},
        # fresh client ids, subscription-store writers, deliveries and statistics reads against each other (both delivery modes)
        {"id": "lib_pairs_overlap", "kind": "pairs", "seed": 2, "storm": dict(clients=24, ids=4, ops=40 if tier == "quick" else 300, api=2, stop_lo_ms=0, stop_hi_ms=1)},
        {"id": "lib_pairs_onlyonce", "kind": "pairs", "seed": 3, "storm": dict(clients=24, ids=4, ops=40 if tier == "quick" else 300, api=2, stop_lo_ms=0, stop_hi_ms=1)},
    ]
    if tier == "thorough":
        lib += [
            {"id": "lib_connect_timeout_then_packets", "kind": "script", "conns": [c(1, 4, "l12")],
             "steps": [S("connect", k=1), S("sleep", ms=5400), S("send", k=1, kind="connect"), S("send", k=1, kind="ping", n=9), S("close", k=1)]},
            {"id": "lib_gate_two_connects_stored_session_v5", "kind": "gate", "conns": [c(1, 5, "g2", clean=False, expiry=60)]},
        ]
    return lib


def storms(ctx, tier):
    n = 6 if tier == "quick" else 96
    out = []
    for i in range(n):
        big = tier == "thorough" and i % 3 == 0
        out.append({"id": "storm_%d_%d" % (ctx.seed, i), "kind": "storm", "seed": ctx.seed * 100003 + i,
                    "storm": {"clients": 24 if big else 10, "ids": 3 + i % 4, "ops": 120 if big else 50, "api": 2 + i % 3,
                              "stop_lo_ms": 80, "stop_hi_ms": 1500 if big else 700,
                              # every third storm: most clients carry a delayed will and are killed (will timers started and cancelled)
                              "wills": 80 if i % 3 == 1 else 0}})
    return out


# ------------------------------------------------------------------------------------------------ reporting
def report_divs(ctx, sc, res, origin, seen):
    """divergences of one executed scenario -> ctx.violation (KNOWN-FINDING when the signature is listed)"""
    n = 0
    for d in res.get("divs") or []:
        sig = cl.canon_sig(d["signature"])
        n += 1
        key = (sig,)
        if key in seen:
            continue
        seen.add(key)
        ctx.violation("%s [%s, scenario %s]" % (d["what"], origin, sc["id"]),
                      {"signature": sig, "driver_signature": d["signature"], "kind": "conn-scenario", "origin": origin, "scenario": sc,
                       "goroutines": (res.get("goroutines") or "")[:20000], "detail": d.get("detail"), "stats": res.get("stats"),
                       "lifecycle": [e for e in (res.get("trace") or []) if e.get("e") in ("hook", "step", "stopcall", "stopret")][:400],
                       "how": "./check C15 quick --replay <this file>   (driver: harness/cmd/conn -scenario <file with the `scenario` object>)"})
    for sig, text in res.get("races") or []:
        n += 1
        if (sig,) in seen:
            continue
        seen.add((sig,))
        ctx.violation("the race detector reported a data race during scenario %s: %s" % (sc["id"], sig),
                      {"signature": sig, "kind": "race-report", "scenario": sc, "report": text})
    if res.get("panic"):
        n += 1
        ctx.violation("a panic escaped during scenario %s" % sc["id"], {"signature": "panic-escaped", "kind": "panic", "scenario": sc, "stderr": res["panic"]})
    return n


def replay(ctx):
    with open(ctx.replay) as fh:
        rp = json.load(fh)
    sc = rp["scenario"]
    race = sc.get("kind") == "storm"
    res = cl.run_driver(ctx, [sc], race=race, par=1)[sc["id"]]
    ctx.cov["traces_validated_against_impl"] = 1
    ctx.cov["rule"] = "replay of one stored scenario on the real broker"
    n = report_divs(ctx, sc, res, "replay", set())
    ctx.sample({"scenario": sc["id"], "divergences": [d["signature"] for d in res.get("divs") or []], "stats": res.get("stats")})
    vlib.log("[C15 replay] %s: %d divergences" % (sc["id"], n))


# ------------------------------------------------------------------------------------------------ the check
def run(ctx):
    if ctx.replay:
        return replay(ctx)
    q = ctx.tier == "quick"
    seen = set()
    ops, table = cl.extract_ops(ctx)
    if str(table["caps"].get("in")) != str(cl.REAL_CAP) or str(table["caps"].get("out")) != str(cl.REAL_CAP):
        raise vlib.MachineryError("capacity of client.in/out is no longer %d (%s): the scaling of counter-examples must be revisited" % (cl.REAL_CAP, table["caps"]))
    ctx.cov["source_ops"] = ops
    ctx.cov["source_table"] = ["%s:%d %s %s %s%s" % (o["file"], o["line"], o["func"], o["kind"], o["chan"], " [select with <-close]" if o["guard_close"] else
                                                     (" [select %s]" % ",".join(o.get("select_others") or []) if o["select"] else "")) for o in table["ops"]]
    vlib.log("[C15] source: " + ", ".join("%s=%s" % kv for kv in sorted(ops.items())))

    lconsts, ltable = cl.extract_lockorder(ctx)
    ctx.cov["source_lock_order"] = dict(lconsts, functions_holding_clientmu=[f["name"] for f in ltable["functions"] if f["locks_clientmu"]])
    vlib.log("[C15] source (lock order): " + ", ".join("%s=%s" % kv for kv in sorted(lconsts.items())))

    ps, expose, green = packs(ctx.tier, ops["in_send_guard"])
    closed = window_closed(ops)
    ctx.cov["windows_closed_in_source"] = closed
    # deviations the model needs on top of the source's constants: the ones whose defect is still in the source
    model_devs = sorted(d for d in cl.ALL_DEVS if not closed[d])
    lib = library(ctx.tier)
    st = storms(ctx, ctx.tier)
    origin = {sc["id"]: "regression library" for sc in lib}
    results = {}
    errors = []
    lock = threading.Lock()
    side = {}

    # ---- real broker, independent of TLC: builds, regression library, storms (race build) -- next to the model checking
    def real_side():
        try:
            cl.build_driver(ctx, race=False)
            cl.build_driver(ctx, race=True)
            t0 = time.time()
            side["lib"] = cl.run_driver(ctx, lib, race=False, par=8)
            vlib.log("[C15] %d library scripts on the real broker in %.1fs" % (len(lib), time.time() - t0))
            t0 = time.time()
            side["storms"] = cl.run_driver(ctx, st, race=True, par=6, timeout=180)
            vlib.log("[C15] %d storms (race build) in %.1fs" % (len(st), time.time() - t0))
        except BaseException as e:       # noqa
            errors.append(e)
    rt = threading.Thread(target=real_side)
    rt.start()

    def job(key, pk, dev, tag):
        try:
            res, ce = cl.tlc_pack(ctx, pk, ops, dev, tag, workers=6 if pk["name"] in ("resp", "respq", "v5drain", "v5stall", "take", "okack") else 3,
                                  timeout=900 if q else 3000,
                                  target=key[1] if key[0] == "expose" else None)
            with lock:
                results[key] = (pk, res, ce)
        except BaseException as e:       # noqa
            errors.append(e)

    jobs = []
    for dname, pname in expose.items():
        if closed[dname] and q:
            # the source's constants say the defect is repaired: the exhaustive proof that its stuck state is unreachable is
            # left to the thorough tier (the green runs below check every property on the same constants anyway)
            continue
        if dname == "c05_relock_window" and closed[dname]:
            continue        # two connections: covered by the green run of pack take
        jobs.append((("expose", dname), ps[pname], [], "faithful_" + dname))
    for pname in green:
        jobs.append((("green", pname), ps[pname], model_devs, "src"))
    sem = threading.Semaphore(4 if q else 6)       # JVMs at a time (4 workers each)

    def guarded(j):
        with sem:
            job(*j)
    ths = [threading.Thread(target=guarded, args=(j,)) for j in jobs]
    for t in ths:
        t.start()
    for t in ths:
        t.join()
    rt.join()
    if errors:
        raise errors[0]

    # ---- (1) behaviours of the model -> scripts
    scen = []
    predicted = {}
    # lock order: the model with the source's constants; a stuck state becomes a gated script / a workload
    lres, third = cl.tlc_lockorder(ctx, lconsts, cl.LOCK_KINDS, "src")
    ctx.cov["states"] += lres.distinct
    if third is None:
        if lres.rc != 0:
            raise vlib.MachineryError("LockOrder.tla failed: " + "\n".join(lres.tail[-20:]))
        predicted["lock_order"] = "no lock cycle among %s with the source's constants %s (exhaustive, %d states)" % (cl.LOCK_KINDS, lconsts, lres.distinct)
    else:
        # every third party the model can get stuck with (the paths that take clientMu and then the store's lock)
        thirds = [third]
        other = [k for k in cl.LOCK_KINDS if k not in ("deliver", "subscribe", third)]
        r2, t2 = cl.tlc_lockorder(ctx, lconsts, ["deliver", "subscribe"] + other, "src2")
        if t2 and t2 not in thirds:
            thirds.append(t2)
        predicted["lock_order"] = "lock cycle reachable: deliver (srv.mu, store read lock, wants clientMu) / subscribe (announced writer) / %s (clientMu, wants the store's read lock)" % " or ".join(thirds)
        for t in thirds:
            for sc in cl.lock_scenarios(t, ctx.seed):
                sc["model_property"] = "NoLockCycle"
                scen.append(sc)
                origin[sc["id"]] = "TLC counter-example (NoLockCycle) of LockOrder.tla with the source's constants %s, third party %s" % (lconsts, t)
    for (kind, name), (pk, res, ce) in sorted(results.items()):
        if kind == "expose":
            if ce is None:
                if not closed[name]:
                    ctx.notes.append("Conn.tla with the source's constants cannot reach the stuck state of finding %s although the extraction does not say it is repaired (pack %s)" % (name, pk["name"]))
                predicted[name] = "unreachable (exhaustive, pack %s, %d states)" % (pk["name"], res.distinct)
                continue
            what = "stuck state of %s reachable in the faithful model after %d steps" % (name, len(ce) - 1)
            predicted[name] = what
            if name == "c05_relock_window":
                sc = {"id": "ce_" + name, "kind": "gate", "conns": [dict(k=1, ver=4, cid="same", clean=False)], "model_property": what}
            else:
                sc = cl.ce_to_scenario(ce, pk, "ce_" + name)
                sc["model_property"] = what
            scen.append(sc)
            origin[sc["id"]] = "TLC behaviour of the faithful model (pack %s, no deviation): %s" % (pk["name"], what)
        else:
            if ce is not None:
                what = cl.violated(res)
                sc = cl.ce_to_scenario(ce, pk, "ce_green_" + name)
                sc["model_property"] = what
                scen.append(sc)
                origin[sc["id"]] = "TLC counter-example (%s) of pack %s with the source's constants and deviations %s" % (what, pk["name"], model_devs)
    ctx.cov["model_predictions"] = predicted
    t0 = time.time()
    out = cl.run_driver(ctx, scen, race=False, par=8) if scen else {}
    vlib.log("[C15] %d scripts from TLC behaviours on the real broker in %.1fs" % (len(scen), time.time() - t0))
    out.update(side["lib"])
    nscript = 0
    lockrep = {}
    for sc in scen + lib:
        res = out[sc["id"]]
        nscript += 1
        if sc["kind"] == "pairs":
            # a workload next to the model checking: a watchdog that expired WITHOUT anybody waiting for a mutex depends on the
            # machine; once more, alone, with long watchdogs (DESIGN 2.6) - only what repeats is reported
            absent = [d for d in res.get("divs") or [] if d["signature"].startswith(("unanswered:", "stop-timeout")) and "lock-" not in d["signature"]]
            if absent:
                slow = dict(sc, id=sc["id"] + "_slow", request_ms=8000, stop_ms=8000)
                r2 = cl.run_driver(ctx, [slow], race=False, par=1, timeout=400)[slow["id"]]
                again = {d["signature"].split(":")[0] for d in r2.get("divs") or []}
                keep = []
                for d in res.get("divs") or []:
                    if d in absent and d["signature"].split(":")[0] not in again:
                        ctx.cov["timing_unconfirmed"] = ctx.cov.get("timing_unconfirmed", 0) + 1
                    else:
                        keep.append(d)
                res["divs"] = keep
        n = report_divs(ctx, sc, res, origin[sc["id"]], seen)
        ctx.sample({"scenario": sc["id"], "origin": origin[sc["id"]], "steps": sc.get("steps"),
                    "divergences": [cl.canon_sig(d["signature"]) for d in res.get("divs") or []]}, cap=8)
        if sc["id"].startswith("ce_lock_"):
            # (a workload: any one of the runs for this third party reproducing the cycle is enough; judged below)
            lockrep.setdefault(sc["id"].rsplit("_", 1)[0] if sc["kind"] == "pairs" else sc["id"], []).append(n)
            continue
        if sc["id"].startswith("ce_"):
            # a behaviour of the model alone is never a verdict: it must reproduce -- and reproduce the predicted divergence
            want = cl.DEVIATIONS.get(sc["id"][3:])
            got = {cl.canon_sig(d["signature"]) for d in res.get("divs") or []}
            if n == 0 and closed.get(sc["id"][3:]):
                # the extraction says this defect is repaired: the state the search reached is then a transient one (the guarded
                # operation leaves it through its close branch), the script is expected to run clean - and did
                ctx.cov.setdefault("repaired_targets_transient", []).append(sc["id"][3:])
                continue
            if n == 0 or (want and want not in got):
                res2 = cl.run_driver(ctx, [sc], race=False, par=1)[sc["id"]]      # one repetition (timing)
                n += report_divs(ctx, sc, res2, origin[sc["id"]], seen)
                got |= {cl.canon_sig(d["signature"]) for d in res2.get("divs") or []}
            if n == 0 or (want and want not in got):
                raise vlib.MachineryError("unreproduced counter-example: %s: predicted %s, observed on the real broker %s (model end state %s)" % (
                    origin[sc["id"]], want, sorted(got), json.dumps(sc.get("model_end_state"))))
    ctx.cov["scripts_executed"] = nscript
    for key, ns in lockrep.items():
        if not any(ns):
            raise vlib.MachineryError("unreproduced counter-example: LockOrder.tla predicts a lock cycle (%s) with the source's constants %s, "
                                      "but the real broker answered every request in %d run(s)" % (key, lconsts, len(ns)))

    # ---- (4) storms on the -race build + trace validation of the lifecycle events
    sres = side["storms"]
    agg = {}
    for sc in st:
        r = sres[sc["id"]]
        # absence-type verdicts (a watchdog expired) depend on the machine: re-executed alone with long watchdogs (DESIGN 2.6)
        absent = [d for d in r.get("divs") or [] if d["signature"].startswith(("unanswered:", "api-call-slow"))
                  and cl.canon_sig(d["signature"]) == d["signature"]]
        if absent:
            slow = dict(sc, id=sc["id"] + "_slow", request_ms=5000, stop_ms=6000)
            r2 = cl.run_driver(ctx, [slow], race=True, par=1, timeout=240)[slow["id"]]
            again = {d["signature"].split(":")[0] for d in r2.get("divs") or []}
            keep = []
            for d in r.get("divs") or []:
                if d in absent and d["signature"].split(":")[0] not in again:
                    ctx.cov["timing_unconfirmed"] = ctx.cov.get("timing_unconfirmed", 0) + 1
                else:
                    keep.append(d)
            r["divs"] = keep
        report_divs(ctx, sc, r, "storm (race build)", seen)
        for k, v in (r.get("stats") or {}).items():
            if isinstance(v, (int, float)) and k not in ("gomaxprocs",):
                agg[k] = agg.get(k, 0) + v
    ctx.cov["storm_stats"] = agg
    if ctx.cov.get("timing_unconfirmed", 0) > 5:
        raise vlib.MachineryError("too many watchdog expiries that do not repeat with long watchdogs (%d): this machine is too loaded for a verdict" % ctx.cov["timing_unconfirmed"])
    ordered = [(sc["id"], sres[sc["id"]]) for sc in st]
    acc, hwm, owner, dups, nev, tp = cl.validate_lifecycle(ctx, ordered, "strict")
    ctx.cov["lifecycle_events_validated"] = nev
    if not acc:
        # which recorded deviation (if any) explains the rejection?  one at a time, then both
        tv = ["unregistered_not_closed", "will_timer_outlives_stop"]
        explained = None
        for devs in ([tv[0]], [tv[1]], tv):
            acc2, hwm2, owner2, dups, nev, tp = cl.validate_lifecycle(ctx, ordered, "dev_" + "_".join(d[:5] for d in devs), dev=devs)
            if acc2:
                explained = devs
                break
        rid, rel = owner if owner else ("?", 0)
        lines, _ = cl.lifecycle_lines(sres[rid]) if rid in sres else ([], False)
        ev = lines[rel - 1] if 0 < rel <= len(lines) else {"e": "reset"}
        sc = [s for s in st if s["id"] == rid]
        if explained:
            ctx.cov["lifecycle_strict_rejected_at"] = [rid, rel, ev]
            ctx.cov["lifecycle_accepted_with"] = explained
            for d in explained:
                ctx.violation("lifecycle trace of %s rejected by TraceConn.tla at event %d (%s); accepted with deviation %s: events of a connection that was not in "
                              "srv.clients when Stop looked continue after stop.end" % (rid, rel, json.dumps(ev), d),
                              {"signature": cl.DEVIATIONS[d], "kind": "lifecycle-trace", "deviation": d, "scenario": sc[0] if sc else None, "line": rel, "event": ev,
                               "trace": lines[max(0, rel - 40):rel + 8]})
        else:
            rid, rel = owner2 if owner2 else (rid, rel)
            lines, _ = cl.lifecycle_lines(sres[rid]) if rid in sres else ([], False)
            ev = lines[rel - 1] if 0 < rel <= len(lines) else {"e": "reset"}
            sc = [s for s in st if s["id"] == rid]
            ctx.violation("lifecycle trace of %s rejected by TraceConn.tla at event %d: %s (no recorded deviation explains it)" % (rid, rel, json.dumps(ev)),
                          {"signature": "lifecycle:" + ev.get("e", "?") + (":" + ev.get("g", "") if ev.get("g") else ""), "kind": "lifecycle-trace",
                           "scenario": sc[0] if sc else None, "line": rel, "event": ev, "trace": lines[:rel + 5]})
    for rid, cid, conn in dups:
        sc = [s for s in st if s["id"] == rid]
        ctx.violation("storm %s: connection %s registered under client id %s while another connection was registered under it" % (rid, conn, cid),
                      {"signature": "c05:two-registered-connections-one-client-id:storm", "kind": "lifecycle-trace", "scenario": sc[0] if sc else None})

    nstorm_conns = agg.get("connects", 0)
    ctx.cov["traces_validated_against_impl"] = nscript + len(st)
    ctx.cov["evaluations"] = int(nev + agg.get("requests", 0) + agg.get("api_calls", 0))
    ctx.cov["distinct_nontrivial"] = len({json.dumps(s.get("steps") or s.get("storm"), sort_keys=True) for s in scen + lib + st})
    ctx.cov["storm_connections"] = nstorm_conns
    ctx.cov["rule"] = ("TLC: every pack of Conn.tla (constants Ops extracted from server/client.go and server/server.go by go/ast at check time) is "
                       "checked for deadlock, StopReturns, SockClosedLeadsToClosed, NothingAliveAfterStop, OnceOnly, OneRegistered, LifecycleInv (pack "
                       "`resp` also Responsive) with those constants plus the named deviations whose defect is still in the source (must hold); for each "
                       "such deviation the stuck state behind it is searched in the faithful model (no deviation) and the shortest behaviour reaching "
                       "it is converted into a script; for a deviation the source has repaired the thorough tier proves the stuck state unreachable. Real broker: every converted counter-example, the regression library and the storms are executed "
                       "by harness/cmd/conn, one fresh in-process broker per process; verdict clauses: request answered or connection closed within "
                       "2 s, closed socket => `closed` event within 2 s, Stop returns nil within 3 s, Unload/OnStop once, no gmqtt frame in the "
                       "goroutine profile after Stop / after all peers closed. Storm lifecycle events are validated by TLC against TraceConn.tla. "
                       "evaluations = lifecycle events validated + requests + administrative calls of the storms.")
    ctx.assumptions += [
        "'no data race' is NOT decided by TLA+: the storm executions run on a `-race` build of the harness and the broker and a report of the race "
        "detector fails the run; this is an observation on those executions only",
        "capacities: client.in/out are 8 in the code and CapIn/CapOut = 1 (2 in pack cap2) in the model; the peer's packet budget is CapIn+3 "
        "(CONNECT, the packet that ends readHandle, CapIn fillers, one that blocks); counter-examples are scaled by 8/CapIn+1 real packets per filler",
        "a TLC counter-example is never a verdict: only divergences reproduced on the real broker are reported; an unreproduced one is exit 2",
        "Stop is judged with a 3 s context; requests with a 2 s watchdog; absence verdicts wait for the full watchdog",
        "enhanced authentication (AUTH continuation, the unguarded `client.out <- Auth` in connectWithTimeOut) needs an OnEnhancedAuth hook and is "
        "present in the extraction table but not exercised",
        "recovered panics are not verdicts (the deferred recover of each goroutine turns them into a closed connection); an escaping panic kills the "
        "driver process and is reported",
    ]
