"""C02 – subscription index answers MQTT topic-matching rules after any history.
TLC explores SubStore.tla exhaustively per alphabet pack; every transition is replayed into mem.NewStore()
(transition coverage); see DESIGN.md §C02."""
import json, os
import vlib, substore_lib, topicstr_lib

LEVEL = "model_checking"

PACKS = {
    # prefix relations, parent match of '/#', single-level wildcard
    "prefix":  ["a", "a/b", "a/b/c", "a/#", "a/+", "#", "+"],
    # empty levels
    "empty":   ["a/", "/a", "a//b", "/", "+/+", "/#", "/+"],
    # '$' topics: no wildcard match on first level
    "sys":     ["$s/x", "$s/#", "$s/+", "#", "+/x", "+/#", "x"],
    # shared filters next to non-shared ones (interference; the share semantics is C11)
    "shared":  ["t", "$share/g1/t", "$share/g2/t", "$share/g1/+", "#", "t/u", "$share/g1/#"],
    # deeper wildcards
    "deep":    ["a/+/c", "a/+/+", "+/b/#", "a/b/#", "a/b/c", "+/+/+", "a/b"],
}


def run(ctx):
    ctx.cov["rule"] = ("every (state, operation) pair of SubStore.tla reachable within the bound is replayed on a fresh "
                       "real store (prefix = BFS path); non-trivial = the store is non-empty before or after the step; "
                       "projection = all Iterate query modes x types x client restriction over the topic universe, "
                       "by-name, by-client, GetStats, GetClientStats, AlreadyExisted")
    ctx.assumptions += ["bounded alphabet: clients, filters (packs), topic universe depth, live subscriptions",
                        "the redis-backed store is judged over the in-process RESP server (checked against RespCmds.tla in C10); its Total counters are not stored and are not compared after a restart",
                        "GetClientStats error for a never-subscribed client is read as zero counters"]
    names = sorted(PACKS)
    if ctx.tier == "quick":
        big = names[ctx.seed % len(names)]
        plan = [(n, ["c1", "c2"], 2, 3 if n == big else 2, 3) for n in names]
    else:
        plan = [(n, ["c1", "c2", "c3"] if n in ("prefix", "shared") else ["c1", "c2"], 2, 3, 3) for n in names]
    alldivs = []
    for name, clients, nopts, maxlive, depth in plan:
        summary, divs, meta = substore_lib.run_pack(ctx, name, clients, PACKS[name], nopts, maxlive, maxlive + 1, depth)
        vlib.log("[C02] pack %-7s transitions=%d divergences=%d" % (name, summary["n"], summary["divergences"]))
        for d in divs:
            d["pack"] = name
            d["meta"] = meta
        alldivs += divs
    # the redis-backed store (persistence/subscription/redis) over the in-process RESP server: same transitions, and after
    # each one a restart (new store object + Init) must answer the same queries.  Client ids that start with characters of
    # "sub:" (the key prefix) are part of the alphabet.
    rplan = [(names[(ctx.seed + 1) % len(names)], 2)] if ctx.tier == "quick" else [(n, 2) for n in names] + [("shared", 3)]
    for name, maxlive in rplan:
        summary, divs, meta = substore_lib.run_pack(ctx, name + "_redis", ["sub1", "b:2"], PACKS[name], 2, maxlive, maxlive + 1, 2 if ctx.tier == "quick" else 3,
                                                    target="redis", workers=4)
        vlib.log("[C02] pack %-7s (redis target) transitions=%d divergences=%d" % (name, summary["n"], summary["divergences"]))
        for d in divs:
            d["pack"] = name + "/redis"
            d["meta"] = meta
            d["signature"] = "redis:" + d["signature"]
        alldivs += divs
    seen = set()
    for d in alldivs:
        key = (d["signature"], d["pack"])
        if key in seen:
            continue
        seen.add(key)
        ctx.violation(d["what"], {"signature": d["signature"], "kind": "substore-transition", "pack": d["pack"],
                                  "meta": d["meta"], "transition": d.get("line"), "target": "redis" if d["pack"].endswith("/redis") else "mem"})
    # exported TopicMatch helper: exhaustive over all strings up to length L over {a,b,/,+,#,$}
    maxlen = 4 if ctx.tier == "quick" else 5
    summary, divs = topicstr_lib.run(ctx, ["a", "b", "/", "+", "#", "$"], maxlen)
    vlib.log("[C02] TopicMatch: %d valid names x %d valid filters = %d pairs (%d matching), divergences=%d" % (
        summary["n"], summary["filters"], summary["pairs"], summary["positives"], summary["divergences"]))
    ctx.cov["evaluations"] += summary["pairs"]
    ctx.cov["distinct_nontrivial"] += summary["positives"]
    ctx.cov["topicmatch"] = {"max_len": maxlen, "names": summary["n"], "filters": summary["filters"], "pairs": summary["pairs"],
                             "matching_pairs": summary["positives"]}
    if summary["samples"]:
        ctx.sample({"topicmatch_row": summary["samples"][0]})
    for d in divs[:10]:
        ctx.violation(d["what"], {"signature": "topicmatch", "kind": "topicmatch-pair", "pair": d.get("extra")})
    ctx.cov["exhaustive"] = True
