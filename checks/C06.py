"""C06 - packet codec (partial claim, DESIGN.md C06 and section 6).
spec/Codec.tla is the independent definition of the MQTT 3.1/3.1.1/5.0 wire format.  TLC enumerates packet values over
boundary domains (BE), prints (value, Enc(value), all alternative encodings) and fault-operator outputs (expect: reject),
and checks its own statements (Len(Enc(p)) = SizeFormula(p), Dec(Enc(p)) = p, fault outputs are outside the image of Enc).
harness/cmd/codec runs every vector through packets.Reader / Pack / TotalBytes / Message.TotalBytes (TV direction: the
real encoder's bytes must be a member of the specification's encodings of the value)."""
import atexit, concurrent.futures, json, os
import vlib, codec_lib, topicstr_lib

LEVEL = "exploration"


def replay(ctx):
    # a replay re-runs one stored vector; it is not an evidence-producing run: keep the evidence of the last full run
    evp = os.path.join(vlib.EVID, ctx.pid + ".json")
    if os.path.exists(evp):
        with open(evp) as fh:
            prev = fh.read()
        atexit.register(lambda: open(evp, "w").write(prev))
    with open(ctx.replay) as fh:
        obj = json.load(fh)
    vec = obj.get("vector")
    if not vec:
        raise vlib.MachineryError("replay file has no vector")
    if vec.get("kind") in ("valid", "fault"):
        d = codec_lib.spec_verdict(ctx, vec)
        want_ok = vec["kind"] == "valid"
        if bool(d.get("ok")) != want_ok:
            raise vlib.MachineryError("replay: Codec.tla now says ok=%s for the stored %s vector" % (d.get("ok"), vec["kind"]))
    summary, divs = codec_lib.run_raw(ctx, [vec])
    ctx.cov["evaluations"] = summary["n"]
    ctx.cov["distinct_nontrivial"] = summary["nontrivial"]
    ctx.cov["rule"] = "replay of one stored vector"
    ctx.sample(vec)
    for d in divs:
        if d["signature"] == obj.get("signature"):
            name = os.path.basename(ctx.replay)[len(ctx.pid) + 1:-len(".json")] if os.path.basename(ctx.replay).startswith(ctx.pid + "_") else None
            ctx.violation(d["what"], dict(obj, what=d["what"]), name=name)
    vlib.log("[C06] replay: %d divergence(s), %d with the stored signature" % (
        len(divs), sum(1 for d in divs if d["signature"] == obj.get("signature"))))


def run(ctx):
    if getattr(ctx, "replay", None):
        return replay(ctx)
    ctx.cov["rule"] = ("vectors enumerated by TLC from Codec.tla: every packet type x version {3.1, 3.1.1, 5} over boundary "
                       "domains (cartesian over small seed-chosen domains + every single-field deviation of a base value "
                       "over the full domains; every property singly with every boundary value, ordered pairs of allowed "
                       "properties), each valid value in all its encodings (forms x property orders), and the outputs of "
                       "the fault operators of Codec.tla section 7; plus every byte string up to length L over "
                       "{a / + # $ NUL 0xC3} (and $share/ + strings) as topic name / filter. evaluations = vectors run "
                       "through the real codec; distinct = distinct (version, end-of-stream, bytes) inputs; non-trivial = "
                       "a fault vector or a packet with a non-empty body")
    ctx.assumptions += [
        "claim restricted to the grammar + fault-operator closure of Codec.tla (DESIGN.md section 6): not arbitrary byte strings",
        "boundary domains: integers {0,1,127,128,16383,16384,65535,2097151,2097152,2^28-1,2^28,2^31-1,2^31,2^32-1}, "
        "strings of <= 6 bytes, payloads of length 0..2 and around the 127/128 and 16383/16384 remaining-length boundaries; "
        "the 2097151/2097152 boundary of the remaining length is not generated",
        "at most two properties per property list; CONNECT under 3.1 follows the 3.1.1 rules apart from protocol name/level",
        "3.1.1 CONNECT with empty client id and CleanSession 0 (answered by CONNACK 0x02) and will topics with wildcards are never generated",
        "reason codes are taken from the tables of the packet type; unknown reason codes are not used as faults",
        "allocation is measured as runtime.MemStats.TotalAlloc around ReadPacket in a single-goroutine driver; limit 32*len(input)+65536 bytes",
    ]
    D, S, propsel = codec_lib.domains(ctx.tier, ctx.rng)
    rich = ctx.tier == "thorough"
    ctx.cov["domains"] = {"D": {k: len(v) for k, v in D.items()}, "S": {k: len(v) for k, v in S.items()},
                          "cartesian_property_ids": propsel, "rich_faults": rich}

    ctx.go_build(["./cmd/codec"])          # once, before the parallel TLC runs
    ctx.go_build(["./cmd/topicmatch"])
    jobs = {}
    results = {}
    with concurrent.futures.ThreadPoolExecutor(max_workers=8) as ex:
        for name, types in codec_lib.GROUPS:
            jobs[ex.submit(codec_lib.run_group, ctx, name, types, [3, 4, 5], D, S, propsel, ("all",), rich,
                           1700 if rich else 400)] = name
        alphabet = [97, 47, 43, 35, 36, 0, 0xC3]
        n, m = (4, 2) if ctx.tier == "quick" else (6, 3)
        # (the same run checks inside TLC that Codec.tla's byte-level predicates agree with TopicStr.tla)
        # (strings up to 3 / 4: TLC pre-evaluates TopicStr!DumpAll, whose match table grows fast)
        jobs[ex.submit(codec_lib.run_validity, ctx, alphabet, n, m, 3 if ctx.tier == "quick" else 4)] = "validity"
        # the printable part of the validity table through the shared TopicStr table as well (C02's driver)
        jobs[ex.submit(topicstr_lib.run, ctx, ["a", "/", "+", "#", "$"], 4 if ctx.tier == "quick" else 5, True)] = "topicstr"
        for fut in concurrent.futures.as_completed(jobs):
            results[jobs[fut]] = fut.result()      # MachineryError propagates

    per_type, per_fault = {}, {}
    alldivs = {}
    total_n = total_nt = 0
    for name in [g for g, _ in codec_lib.GROUPS] + ["validity"]:
        summary, divs = results[name]
        total_n += summary["n"]
        total_nt += summary["nontrivial"]
        for k, v in summary["counters"].items():
            if k.startswith("valid:"):
                per_type[k[6:]] = per_type.get(k[6:], 0) + v
            elif k.startswith("fault:"):
                per_fault[k[6:]] = per_fault.get(k[6:], 0) + v
        vlib.log("[C06] %-8s vectors=%d (valid %d, faulted %d) divergent vectors=%d signatures=%d tlc+driver=%.0fs" % (
            name, summary["n"], summary["valid"], summary["faults"], summary["divergences"], summary["signatures"],
            summary["tlc_wall_s"]))
        sm = summary["samples"] or []
        for s in [x for x in sm if x.get("kind") == "valid"][:1] + [x for x in sm if x.get("kind") == "fault"][:1] + [
                x for x in sm if x.get("kind") == "validity"][:1]:
            ctx.sample(s, cap=8)
        for d in divs:
            cur = alldivs.get(d["signature"])
            if cur is None or len(d["extra"]["hex"]) < len(cur["extra"]["hex"]):
                d["group"] = name
                d["extra"]["count"] += cur["extra"]["count"] if cur else 0
                alldivs[d["signature"]] = d
            else:
                cur["extra"]["count"] += d["extra"]["count"]
    ctx.cov["evaluations"] = total_n
    ctx.cov["distinct_nontrivial"] = total_nt
    ctx.cov["traces_validated_against_impl"] = total_n
    ctx.cov["vectors_valid_per_type"] = per_type
    ctx.cov["vectors_faulted_per_fault"] = per_fault
    ctx.cov["validity_strings"] = results["validity"][0]["n"]
    ctx.cov["exhaustive"] = False
    vlib.log("[C06] valid vectors per type: %s" % json.dumps(per_type, sort_keys=True))
    vlib.log("[C06] faulted vectors per fault: %s" % json.dumps(per_fault, sort_keys=True))

    tsum, tdivs = results["topicstr"]
    ctx.cov["evaluations"] += tsum["n"]
    seen = set()
    for d in tdivs:
        s = (d.get("extra") or {}).get("s", "")
        cls = "leading-plus-not-alone" if s.startswith("+") and len(s) > 1 and s[1] != "/" else "other"
        sig = "validity:topicstr:%s:%s" % (d["signature"], cls)
        if sig in seen:
            continue
        seen.add(sig)
        # the same strings are in the byte-level table; report only what that table did not already show
        fn = {"valid-name": "ValidTopicName", "valid-filter": "ValidTopicFilter", "valid-v5": "ValidV5Topic"}[d["signature"]]
        if any(k.startswith("validity:%s:" % fn) and k.endswith(cls) for k in alldivs):
            continue
        ctx.violation(d["what"], {"signature": sig, "kind": "validity-string", "string": s})

    for sig in sorted(alldivs):
        d = alldivs[sig]
        e = d["extra"]
        what = "%s  [%d vector(s); minimal input %s, version %s%s]" % (
            d["what"], e["count"], e["hex"], e.get("version"), ", stream ends after it" if e.get("eof") else "")
        ctx.violation(what, {"signature": sig, "kind": "codec-vector", "hex": e["hex"], "version": e.get("version"),
                             "eof": e.get("eof"), "vector": e.get("vector"), "count": e["count"],
                             "detail": {k: v for k, v in e.items() if k not in ("vector", "hex", "count")}})
    ctx.cov["divergent_signatures"] = len(alldivs)
