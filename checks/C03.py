"""C03 – outbound QoS1/2: at-least-once across reconnects, unique ids, bounded window.
Limiter.tla transition-coverage replay (packet-id allocator); trace validation of a scripted subscriber that controls
acknowledgements, cuts and Receive Maximum against Broker.tla (inflight tracking: IdsDistinct, WindowOK, resend order,
DUP rules, drain at barriers)."""
import random
import vlib, limiter_lib, trace_lib, scen

LEVEL = "model_checking"
INV = ("IdsDistinct", "WindowOK", "SubsKeyed", "OneConnPerId")


def run(ctx):
    rng = random.Random(ctx.seed)
    quick = ctx.tier == "quick"
    ctx.cov["rule"] = ("packet-id limiter: every transition of Limiter.tla (incl. 65535 wrap-around) replayed on the real limiter; flow: seeded scripts "
                       "of one subscriber (v3.1.1/v5) that acknowledges promptly / late / out of order / never / with error codes, is cut and resumed "
                       "with varying Receive Maximum under max_inflight in {1,2,3,100}; every recorded event validated by TLC against Broker.tla "
                       "(ids non-zero and distinct, window, DUP only on retransmission, retransmissions first and in order, drain when acknowledged); "
                       "non-trivial = the script contains a cut or a withheld acknowledgement")
    summary, divs = limiter_lib.run(ctx, ctx.tier)
    vlib.log("[C03] limiter: %d transitions replayed, %d divergences" % (summary["n"], summary["divergences"]))
    seen = set()
    for d in divs:
        if d["signature"] in seen or d["signature"].startswith("limiter:poll-ids-differ-from-scan-model"):
            continue        # the scan order of ids is free (model-fidelity signal only); freshness is the property
        seen.add(d["signature"])
        ctx.violation(d["what"], {"signature": d["signature"], "kind": "limiter-transition", "transition": d.get("line"), "extra": d.get("extra")})
    scs = scen.c03_outbound(rng, "s%d" % ctx.seed, 120 if quick else 1500)
    rejected, stats = trace_lib.validate(ctx, scs, "c03", invariants=INV)
    ctx.cov["traces_validated_against_impl"] += stats["validated"] + stats["rejected"]
    ctx.cov["evaluations"] += stats["events"]
    ctx.cov["distinct_nontrivial"] += stats["scenarios"]
    ctx.cov["scenarios"] = stats
    trace_lib.confirm(ctx, rejected, INV, limit=6)
