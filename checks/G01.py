"""G01 (growth beyond the listed properties; not in MANIFEST.json, raises no VIOLATION line): CONNECT negotiation and
capability enforcement.  spec/Negotiate.tla defines, for every (broker configuration, CONNECT, request) of a finite alphabet,
what MQTT demands: CONNACK code, the advertised properties (Maximum QoS, Retain / Wildcard / Subscription Identifier / Shared
Subscription Available, Server Keep Alive, Assigned Client Identifier) and the answer to a request that uses a capability
(PUBLISH QoS / RETAIN, SUBSCRIBE wildcard / shared / with identifier).  TLC checks that the demanded outcomes are coherent
(AdvertisedIsEnforced ...), every case is executed on a real broker, and the differences are reported as OBSERVATION lines,
grouped by the named as-coded deviation that explains them (DESIGN.md 11).  Exit 0 unless the machinery fails; an
observation no deviation explains is printed as UNEXPLAINED."""
import json
import vlib, negotiate_lib as nl

LEVEL = "model_checking"

EXPLAINS = {
    "maxqos_advertised_minus_one": ["advertised:maxqos:"],
    "maxqos_not_enforced": ["request:pub:want=disconnect/155", "request:pub:want=closed/0,got=ack"],
    "subid_unavailable_ignored": ["request:sub:want=disconnect/161"],
    "caps_not_applied_to_v3": ["request:sub:want=suback/128"],
    "empty_id_refusal_connack_unreadable": ["connack:code:want=133,got=-3", "connack:code:want=2,got=-3"],
    "v3_empty_id_persistent_closed_silently": ["connack:code:want=2,got=-2"],
}


def run(ctx):
    full = ctx.tier != "quick"
    d0 = nl.design(ctx, full, [], "demanded")
    if d0.violation or d0.rc != 0:
        raise vlib.MachineryError("the demanded outcomes of Negotiate.tla are not coherent (model bug):\n" + (d0.violation or "\n".join(d0.tail[-20:])))
    d1 = nl.design(ctx, full, nl.DEVIATIONS, "ascoded")
    ctx.cov["design_level"] = {"cases": d0.distinct, "demanded_outcomes_coherent": True,
                               "as_coded_outcomes_violate": (d1.violation or "").splitlines()[0] if d1.violation else None}
    # strict: the demanded outcomes
    s, divs, res = nl.replay(ctx, full, [], "strict")
    ctx.cov["traces_validated_against_impl"] += s["n"]
    ctx.cov["evaluations"] += s["n"]
    ctx.cov["distinct_nontrivial"] += s["nontrivial"]
    by = {}
    for k, v in s["counters"].items():
        if k.startswith("div:"):
            by[k[4:]] = v
    ctx.cov["strict_divergences_by_signature"] = by
    unexplained = []
    hits = {}
    for sig, n in sorted(by.items()):
        dev = next((d for d, pats in EXPLAINS.items() if any(sig.startswith(p) for p in pats)), None)
        if dev is None:
            unexplained.append((sig, n))
        else:
            hits[dev] = hits.get(dev, 0) + n
    for dev, n in sorted(hits.items()):
        ex = next((d for d in divs if any(d["signature"].startswith(p) for p in EXPLAINS[dev])), None)
        vlib.log("OBSERVATION: growth=G01 deviation=%s cases=%d e.g. %s" % (dev, n, (ex or {}).get("what", "")[:400]))
    # with the deviations: everything else must agree
    s2, divs2, _ = nl.replay(ctx, full, nl.DEVIATIONS, "ascoded")
    ctx.cov["traces_validated_against_impl"] += s2["n"]
    ctx.cov["evaluations"] += s2["n"]
    ctx.cov["as_coded_divergences"] = {k[4:]: v for k, v in s2["counters"].items() if k.startswith("div:")}
    ctx.cov["observations"] = hits
    ctx.cov["rule"] = ("every (configuration, CONNECT, request) case of Negotiate.tla executed twice on real brokers (demanded outcomes; "
                       "outcomes with the named as-coded deviations, which must then agree exactly); non-trivial = CONNACK and answer as predicted")
    for s_ in s2.get("samples", [])[:2]:
        ctx.sample({"case": s_})
    bad = [d for d in divs2]
    for sig, n in unexplained:
        vlib.log("UNEXPLAINED: growth=G01 %s x%d" % (sig, n))
    for d in bad[:10]:
        vlib.log("UNEXPLAINED (with the as-coded deviations): growth=G01 %s: %s" % (d["signature"], d["what"][:400]))
    ctx.cov["unexplained"] = len(unexplained) + len(bad)
    if unexplained or bad:
        ctx.notes.append("growth check G01 has unexplained differences")
        pass
