"""C07 – retained messages: last value per topic, replayed to new subscriptions per spec.
Store: Retained.tla transition-coverage replay into retained/trie; broker: trace validation of retained histories +
subscriptions of every shape against Broker.tla (RetainUpdate, Replay); see DESIGN.md §C07."""
import random
import vlib, retained_lib, trace_lib, scen, brokerop_lib

LEVEL = "model_checking"
INV = ("IdsDistinct", "SubsKeyed", "OneConnPerId")


def run(ctx):
    rng = random.Random(ctx.seed)
    quick = ctx.tier == "quick"
    ctx.cov["rule"] = ("store: every transition of Retained.tla (packs with prefix topics, empty levels, '$' topics, replace/clear/re-add) replayed on "
                       "trie.NewStore(), all lookups compared; broker: seeded histories of retained publishes/clears (also via topic alias) followed by "
                       "subscriptions over filter shape x QoS x Retain Handling x RAP x version x shared incl. re-subscription, traces validated by TLC "
                       "against Broker.tla; non-trivial = the retained store was non-empty when a subscription was made")
    summary, divs = retained_lib.run(ctx, ctx.tier)
    vlib.log("[C07] retained store: %d transitions replayed, %d divergences" % (summary["n"], summary["divergences"]))
    seen = set()
    for d in divs:
        if d["signature"] in seen:
            continue
        seen.add(d["signature"])
        ctx.violation(d["what"], {"signature": d["signature"], "kind": "retained-transition", "pack": d.get("pack"), "meta": d.get("meta"),
                                  "transition": d.get("line")})
    if not quick:
        for mode in ("overlap", "onlyonce"):
            brokerop_lib.run(ctx, "plain", mode, nopts=3, pubqos=(0, 1), timeout=3000)
    scs = scen.with_props(rng, scen.c07_retained(rng, "s%d" % ctx.seed, 100 if quick else 1500))   # kept and replayed with their properties
    rejected, stats = trace_lib.validate(ctx, scs, "c07", invariants=INV)
    ctx.cov["traces_validated_against_impl"] += stats["validated"] + stats["rejected"]
    ctx.cov["evaluations"] += stats["events"]
    ctx.cov["distinct_nontrivial"] += stats["scenarios"]
    ctx.cov["scenarios"] = stats
    trace_lib.confirm(ctx, rejected, INV, limit=6)
